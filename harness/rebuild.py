"""Rebuild gambit's native extension modules from /repo's current working tree.

The three extension modules are build artefacts (X.c and X.*.so are git-ignored).  Cython is not
installed in this sandbox, so X.pyx -> X.c cannot be redone here; X.c -> X.so can (gcc).  This module
* recompiles X.so whenever X.c is newer than X.so (or X.so is missing);
* reports `stale-native: X` when X.pyx (or a .pxd) differs from the source the checked-in X.c was generated
  from (hash stamp taken at the pinned commit, or pyx newer than c).  That is recorded as an assumption in the
  evidence; it is neither a violation nor a machinery failure.
"""
import glob
import hashlib
import json
import os
import subprocess
import sysconfig

REPO = os.environ.get('GAMBIT_REPO', '/repo')
CYDIR = os.path.join(REPO, 'src', 'gambit', '_cython')
STAMP = os.path.join(os.path.dirname(os.path.abspath(__file__)), 'native_stamp.json')
PY = '/venv/bin/python'


def _sha(path):
    return hashlib.sha256(open(path, 'rb').read()).hexdigest()


def _include_dirs():
    out = subprocess.run([PY, '-c', 'import sysconfig,numpy;print(sysconfig.get_paths()["include"]);print(numpy.get_include())'],
                         stdout=subprocess.PIPE, text=True, check=True).stdout.split()
    return out


def ensure_native(force=False):
    notes = []
    stamp = json.load(open(STAMP)) if os.path.exists(STAMP) else {}
    incs = None
    for name in ('kmers', 'metric', 'threads'):
        c = os.path.join(CYDIR, name + '.c')
        pyx = os.path.join(CYDIR, name + '.pyx')
        sos = glob.glob(os.path.join(CYDIR, name + '.cpython-*.so'))
        so = sos[0] if sos else os.path.join(CYDIR, name + '.cpython-312-x86_64-linux-gnu.so')
        if os.path.exists(c):
            if force or not os.path.exists(so) or os.path.getmtime(c) > os.path.getmtime(so) + 1e-6:
                incs = incs or _include_dirs()
                tmp = so + '.tmp'
                cmd = ['gcc', '-shared', '-fPIC', '-O2', '-fopenmp', '-fwrapv', '-fno-strict-aliasing']
                for i in incs:
                    cmd += ['-I', i]
                cmd += [c, '-o', tmp]
                subprocess.run(cmd, check=True, stdout=subprocess.PIPE, stderr=subprocess.STDOUT)
                os.replace(tmp, so)
                notes.append(f'rebuilt-native: {name}.so recompiled from {name}.c')
        if os.path.exists(pyx):
            changed = stamp.get(name + '.pyx') not in (None, _sha(pyx))
            newer = os.path.exists(c) and os.path.getmtime(pyx) > os.path.getmtime(c) + 1e-6 and changed
            if changed or newer:
                notes.append(f'stale-native: {name}.pyx differs from the source {name}.c was generated from; '
                             f'Cython is not installed here, the compiled module reflects {name}.c')
    for pxd in ('types.pxd', 'kmers.pxd', 'metric.pxd'):
        p = os.path.join(CYDIR, pxd)
        if os.path.exists(p) and stamp.get(pxd) not in (None, _sha(p)):
            notes.append(f'stale-native: {pxd} changed; Cython is not installed here')
    return notes


def write_stamp():
    d = {}
    for f in sorted(os.listdir(CYDIR)):
        if f.endswith(('.pyx', '.pxd')):
            d[f] = _sha(os.path.join(CYDIR, f))
    json.dump(d, open(STAMP, 'w'), indent=1)


if __name__ == '__main__':
    import sys
    if '--stamp' in sys.argv:
        write_stamp()
    for n in ensure_native():
        print('NOTE', n)
