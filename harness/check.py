import importlib
import sys

from . import core


def main():
    if len(sys.argv) < 2:
        print('usage: check <ID> [--tier quick|thorough] [--replay path]', file=sys.stderr)
        return 2
    pid = sys.argv[1].upper()
    try:
        mod = importlib.import_module(f'harness.props.{pid.lower()}')
    except ModuleNotFoundError as e:
        print(f'no check for {pid}: {e}', file=sys.stderr)
        return 2
    return core.main(pid, mod.run, getattr(mod, 'replay', None), sys.argv[2:])


if __name__ == '__main__':
    sys.exit(main())
