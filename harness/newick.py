"""A small stand-alone Newick parser (deliberately not Biopython's): quoted labels ('' escape), branch lengths."""


class Node:
    def __init__(self):
        self.children = []
        self.label = None
        self.length = None


def parse(text):
    s = text.strip()
    if not s.endswith(';'):
        raise ValueError('missing ;')
    pos = [0]

    def peek():
        return s[pos[0]]

    def label():
        if peek() == "'":
            pos[0] += 1
            out = []
            while True:
                c = s[pos[0]]
                if c == "'":
                    if s[pos[0] + 1] == "'":
                        out.append("'")
                        pos[0] += 2
                        continue
                    pos[0] += 1
                    return ''.join(out)
                out.append(c)
                pos[0] += 1
        start = pos[0]
        while s[pos[0]] not in '(),:;':
            pos[0] += 1
        raw = s[start:pos[0]]
        return raw if raw else None

    def node():
        n = Node()
        if peek() == '(':
            pos[0] += 1
            while True:
                n.children.append(node())
                if peek() == ',':
                    pos[0] += 1
                    continue
                if peek() == ')':
                    pos[0] += 1
                    break
                raise ValueError(f'unexpected {peek()!r} at {pos[0]}')
        n.label = label()
        if peek() == ':':
            pos[0] += 1
            start = pos[0]
            while s[pos[0]] not in '(),;':
                pos[0] += 1
            n.length = float(s[start:pos[0]])
        return n

    root = node()
    if s[pos[0]] != ';' or pos[0] != len(s) - 1:
        raise ValueError('trailing text')
    return root


def analyse(root, grid):
    """-> dict(leaves, merges [{a, b, h}], depths, paths, minbranch, binary, offgrid); heights/paths in grid units."""
    leaves, merges, lengths = [], [], []
    binary = True
    offgrid = False

    def togrid(x):
        nonlocal offgrid
        u = round(x * grid)
        if abs(x * grid - u) > 0.02:
            offgrid = True
        return int(u)

    def walk(n, depth, is_root=False):
        """returns (leaf label list, height of n above its leaves (float))"""
        nonlocal binary
        if not is_root:
            lengths.append(n.length if n.length is not None else 0.0)
        d = depth + (0.0 if is_root else (n.length or 0.0))
        if not n.children:
            leaves.append((n.label, d))
            return [n.label], 0.0
        if len(n.children) != 2:
            binary = False
        parts = [walk(c, d) for c in n.children]
        hs = [h + (c.length or 0.0) for (ls, h), c in zip(parts, n.children)]
        h = max(hs)
        if len(parts) == 2:
            merges.append(dict(a=parts[0][0], b=parts[1][0], hf=h, spread=max(hs) - min(hs)))
        return [x for ls, _ in parts for x in ls], h
    walk(root, 0.0, True)
    merges.sort(key=lambda m: (round(m['hf'], 9), len(m['a']) + len(m['b'])))
    labs = [l for l, _ in leaves]
    depth = dict(leaves)
    # pairwise path length = sum of branch lengths between the two leaves
    paths = [[0] * len(labs) for _ in labs]

    def lca_paths(n, acc):
        if not n.children:
            return {n.label: 0.0}
        maps = []
        for c in n.children:
            m = lca_paths(c, acc)
            maps.append({k: v + (c.length or 0.0) for k, v in m.items()})
        for i in range(len(maps)):
            for j in range(i + 1, len(maps)):
                for a, da in maps[i].items():
                    for b, db in maps[j].items():
                        acc[(a, b)] = acc[(b, a)] = da + db
        out = {}
        for m in maps:
            out.update(m)
        return out
    acc = {}
    lca_paths(root, acc)
    for i, a in enumerate(labs):
        for j, b in enumerate(labs):
            if i != j:
                paths[i][j] = togrid(acc[(a, b)])
    return dict(leaves=labs, merges=[dict(a=m['a'], b=m['b'], h=togrid(m['hf'])) for m in merges], depths=[togrid(depth[l]) for l in labs],
                paths=paths, minbranch=int(round(min(lengths) * 1e9)) if lengths else 0, binary=binary and len(set(labs)) == len(labs),
                offgrid=offgrid or any(m['spread'] > 4e-7 for m in merges))
