from .manifest_reg import check, NOT_APPLICABLE  # noqa

TRUSTED = ('Trusted base: TLC/SANY and the CommunityModules Java overrides; the TLA+ definitions (written from the property '
           'statement, cross-checked by algorithm==definition model checks and negative controls); the harness projection '
           '(bytes<->int lists, base-4 digit expansion, IEEE bit-field extraction, rank abstraction). ')

check('C07',
      'Exhaustive TLC model check of the four conversion loops (shift-add encode, reverse encode, mod/div decode, revcomp) '
      'against the definitional base-4 code over a 15-byte adversarial alphabet, plus byte-range lemmas over all 256 bytes; '
      'conformance: TLC judges call records of the real kmer_to_index / kmer_to_index_rc / index_to_kmer / revcomp on every '
      'k-mer k<=6 (quick) / k<=8 (thorough) in three case patterns, every byte string of length <=2 over 0..255, boundary '
      'k-mers for every k<=33 in all four input types, and seeded random k-mers/indices up to 2^64-1.',
      TRUSTED + 'k>15 indices are compared as digit tuples because TLC integers are 32-bit.',
      'TLA+ spec (Nucleotide, KmerCodec) model-checked with TLC; TLC judges exhaustive call records of the real code',
      'DESIGN.md 5 (C07)')

check('C01',
      'Exhaustive TLC model check of the find_kmers + accumulate state machine (forward find with end=-k, restart at loc+1, '
      'reverse find from start=k, reverse slice arithmetic) against the definitional signature SigDef for every sequence of '
      'length <=5 (quick) / <=6 (thorough) over {A,C,G,T,N} and a mixed-case alphabet, k 1..3, five prefixes incl. palindromic and '
      'self-overlapping ones, plus revcomp/case-invariance lemmas; conformance: TLC judges calc_signature records (4 input types x '
      '3 accumulators, identical outputs judged once) on every sequence <=5 (quick) / <=7 (thorough) x 12 (k,prefix) pairs, a '
      'mixed-case exhaustive family, find_kmers+kmer_index records, and seeded random inputs with planted matches over arbitrary '
      'bytes, k up to 32: dtype, strict order and set equality with SigDef.',
      TRUSTED + 'Sequences longer than 5000 nt are not explored.',
      'TLA+ spec (KmerSig definition vs KmerSearch algorithm) model-checked with TLC; TLC judges call records of the real code',
      'DESIGN.md 5 (C01)')

check('C02',
      'Exhaustive TLC model check of the two-pointer merge (one action per loop iteration, tail accounting, single float32 '
      'division modelled by exact long division) against |A xor B|/|A or B| for all ordered pairs of subsets of a 5/6-element '
      'universe, with the loop invariant; conformance: TLC judges jaccarddist/jaccard records (both argument orders) for every '
      'ordered pair of subsets of a 4 (quick) / 6 (thorough) element universe x all 36 dtype pairs x placements at the bottom, '
      'top of the narrower range and straddling it, plus seeded random sets up to 50,000 elements: bit-exact float32 quotient, '
      'index == 1 - distance exactly.',
      TRUSTED + 'Sets with >= 2^24 elements are not explored (the statement limits bit-exactness to < 2^24).',
      'TLA+ spec (Jaccard, JaccardMerge, exact float32 quotient) model-checked with TLC; TLC judges call records bit-for-bit',
      'DESIGN.md 5 (C02)')

check('C15',
      'TLC evaluates the metric axioms (range, zero iff equal, one iff disjoint non-empty, symmetry, triangle with slack 2^-22 in '
      '48-bit fixed point, strict decrease under common augmentation) for ALL triples of subsets of a 4 (quick) / 5 (thorough) '
      'element universe on the specification, and model-checks that the merge algorithm computes that distance; conformance: TLC '
      'judges the six reported float32 distances, two widened-dtype variants and the augmented pair of every ordered triple of '
      'subsets (x 3/6 dtype assignments) and of seeded random large triples: every axiom on the reported values and every value '
      'against the correctly rounded ratio.',
      TRUSTED + '"strictly decreases" is read for A != B (it contradicts "0 exactly when equal" otherwise).',
      'TLA+ spec (Jaccard axioms) checked exhaustively by TLC; TLC judges reported distances of the real code',
      'DESIGN.md 5 (C15)')

check('C10',
      'Exhaustive TLC model check of the incremental trunk algorithm of consensus_taxon (as repaired) against the definitional '
      'consensus (tip, else LCA of tips, else none) for every forest with <=4 (quick) / <=5 (thorough) taxa, every duplicate-free '
      'ordered selection of <=4 matched taxa, plus the negative control (algorithm as found: TLC finds the order dependence); '
      'conformance: TLC judges consensus_taxon on real Taxon objects for every such ordered selection, classify(strict=True) under '
      'EVERY permutation of the reference list on all small scenarios and on seeded random deeper forests: consensus, failed flag, '
      'comparability, warning presence and named taxa, admissible primary match, and equality of the outcome across permutations.',
      TRUSTED + 'Distances/thresholds abstracted to ranks; warning recognised by its text.',
      'TLA+ spec (Taxonomy, Classify, ConsensusAlgo) model-checked with TLC incl. negative control; TLC judges real classify() results over all reference orders',
      'DESIGN.md 5 (C10)')

check('C03',
      'Exhaustive TLC model check of the three lineage walks (matching_taxon, next_taxon as repaired, reportable_taxon) against the '
      'definitions for all forests of 3 (quick) / 4 (thorough) taxa x all threshold assignments x report flags x genome taxon x '
      'distance rank, with the monotonicity and next-shape theorems and a negative control (next_taxon as found); conformance: TLC '
      'judges classify / GenomeMatch / get_result_item results on real ORM objects for every forest <=3/4 taxa x thresholds '
      '{none, 0, 1, 2} swept through all distance ranks (exact threshold hits incl. 0.0), all 2/3-genome scenarios with ties, and '
      'seeded random deep forests.',
      TRUSTED + 'Distances/thresholds abstracted to ranks (r/16, exact in float32 and float64).',
      'TLA+ spec (Classify, ClassifyAlgo) model-checked with TLC incl. negative control; TLC judges real classification results',
      'DESIGN.md 5 (C03)')

check('C09',
      'TLC model check that a stable sort prefix equals the (distance, reference order) prefix and starts with the first index of '
      'the minimum, for all distance-rank vectors up to length 4/5, with an unstable-sort negative control; conformance: TLC judges '
      'the closest_genomes list of get_result_item for every rank vector of length <=5/6 x several N, and for seeded heavy-tie '
      'vectors of length 1..64 and 200..300, in-process and in fresh interpreters with AVX512 and AVX512+AVX2 dispatch disabled, '
      'twice each: order, exact distances, per-entry taxon, first entry == closest match.',
      TRUSTED + 'Only the instruction sets of this CPU can be toggled.',
      'TLA+ spec (Classify!ClosestList, ClosestAlgo) model-checked with TLC; TLC judges lists produced under several CPU-dispatch settings',
      'DESIGN.md 5 (C09)')

check('C20',
      'TLC model check of the list-backed collection as a state machine (every mutation an action, every transition asserted against '
      'an independently stated postcondition; slice closed form == stepping) ; conformance in both directions: (judge) TLC judges every '
      'index expression of a bounded grammar (ints, all slices over a range incl. step 0, all index lists <=3 as list/int8/int16/int64/'
      'uint64 arrays, all masks, ill-typed indices) on collections of length 0..4/5 and 200 in four containers (array, list, annotated '
      'wrapper, HDF5 file) against list semantics, with kmerspec/dtype preservation, unmodified index arrays and the values/bounds '
      'representation invariant; all ordered pairs of an equality family; seeded random mutation histories; (generator) mutation '
      'histories produced by TLC -simulate from the SigList spec replayed on the real SignatureList, state compared after every step. '
      'A calibration family runs the same indices on a plain Python list and must be accepted by the spec.',
      TRUSTED + 'Signature contents are shipped verbatim; step-0 slices may raise ValueError (as a list does).',
      'TLA+ spec (SigIndex, SigList) model-checked with TLC; TLC judges exhaustive index records; TLC-generated histories replayed on the code',
      'DESIGN.md 5 (C20)')

check('C12',
      'TLC model check of the writer protocol (a completed write is durable and complete on both write paths) and of the slice/index '
      'semantics; conformance: TLC judges dump_signatures -> load_signatures round trips over k in {1,4,5,8,9,16,17,32}, all four index '
      'widths with boundary values, empty signatures, four containers, six id kinds, five metadata variants incl. Unicode and nested '
      'extra, compression none/gzip/lzf (content equality field by field), a menu of index expressions on every loaded file (shared '
      'indexing clauses), and 30 foreign / damaged files (empty, magic prefixes, text, FASTA, gzip, sqlite, HDF5 without marker, marker '
      'on a sub-group, magic + garbage ...) which must raise the dedicated error.',
      TRUSTED + 'HDF5 internals are opaque (trusted); strings with NUL excluded.',
      'TLA+ spec (SigStore, SigIndex) model-checked with TLC; TLC judges round-trip, indexing and refusal records of the real code',
      'DESIGN.md 5 (C12)')

check('C19',
      'TLC model check of the storage-call protocol of both write paths against an abstract library model (metadata reaches the disk '
      'only at flush/close, raw data at any time): in every reachable state - i.e. at every crash point and under every write-back '
      'interleaving - a loadable file is complete; negative controls (extra flush, cache eviction) are violated. Conformance: (trace) the '
      'real call sequences of dump_signatures, recorded by wrapping h5py in the writer process, are replayed through the same model by '
      'TLC (trace validation with per-trace verdicts); (fault enumeration) a writer subprocess is killed with os._exit immediately '
      'before each of its storage calls, for both paths, small and multi-megabyte payloads, with and without compression, and the '
      'leftover file is loaded with the real loader; TLC judges the outcomes.',
      TRUSTED + 'EvictionPossible = FALSE (metadata of a .gs file stays in the library cache until close); crashes inside a library call are out of scope.',
      'TLA+ spec (SigStore) model-checked with TLC; TLC trace validation of recorded storage calls; crash-point enumeration on the real writer',
      'DESIGN.md 5 (C19)')

check('C13',
      'Exhaustive TLC model check of the executor protocol (submit in order, start when a worker is free, finish/fail in any order, '
      'collect completed futures, store at the file index, return only after all collected) for up to 4/5 files, 2/3 workers, 1/2 '
      'failing files - every interleaving - with the negative control "results in completion order"; conformance in both directions: '
      '(generator) TLC emits every completion permutation x failing set with the outcome the spec requires, and each is FORCED on the '
      'real calc_file_signatures through a caller-supplied executor whose futures complete one at a time in exactly that order; '
      '(trace) real thread and process pools (1..16 workers, size-skewed files, an unreadable file at each position) are wrapped, their '
      'submit/done/increment/return events are validated against the spec by TLC (Trace_CalcFiles, Start and the collected future '
      'inferred); plus sequential / own-pool modes with file-size permutations, fewer workers than files and more files than CPUs.',
      TRUSTED + 'Returned signatures are identified with files by content (files have pairwise distinct signatures).',
      'TLA+ spec (CalcFiles) model-checked with TLC; TLC-generated completion orders forced on the code; TLC trace validation of real pools',
      'DESIGN.md 5 (C13)')

check('C05',
      'TLC model checks of (a) the chunk loop of jaccarddist_matrix and the row loop of jaccarddist_pairwise over abstract distance '
      'tokens (every cell holds the token of its own (query, selected reference) pair, written exactly once; condensed offsets; meter '
      'total) for all index selections with repeats and chunk sizes, (b) the OpenMP prange loop with dynamic schedule and private '
      'begin/end under every thread interleaving, with the shared-temporaries negative control, (c) the per-cell merge kernel; '
      'conformance: TLC judges the bit patterns of every cell of real bulk calls (one-vs-many, matrix, square, condensed) against the '
      'two-signature distance of the same pair and against the correctly rounded ratio, over five reference containers incl. an HDF5 '
      'file and a slice view, dtype pairs incl. a query wider than the references with values congruent mod 2^16, chunk sizes, index '
      'selections (permutations, repeats, non-monotone runs, empty), caller-supplied and strided output buffers, 1..16 threads and '
      'repeated runs.',
      TRUSTED + 'The OpenMP schedule can be neither chosen nor observed here: race freedom rests on the OmpLoop model plus sampled repeated runs.',
      'TLA+ spec (BulkDist, OmpLoop, JaccardMerge) model-checked with TLC; TLC judges every cell of real bulk computations bit-for-bit',
      'DESIGN.md 5 (C05)')

check('C06',
      'TLC model check of a byte-level FASTA reader (one action per byte) over every rendering - contig order x per-contig '
      'orientation x case x line width x LF/CRLF x final newline - of small genomes: the parsed records are the rendered contigs and the '
      'file signature equals the union of the ORIGINAL contigs\' signatures (with a witness that concatenation would add a k-mer); '
      'conformance (generator): TLC serialises every rendering of three conformance genomes as file bytes together with the signature '
      'the specification requires; the harness writes them (gzip and six file extensions cycled independently), runs '
      'calc_file_signature on all and `gambit signatures create` on a sample and compares; bundled real genomes re-rendered at random '
      'must keep their signature.',
      TRUSTED + 'gzip framing comes from Python\'s gzip module (opaque).',
      'TLA+ spec (Fasta, FastaReader, KmerSig) model-checked with TLC; TLC-generated file renderings with required signatures replayed on the code',
      'DESIGN.md 5 (C06)')

check('C04',
      'Exhaustive TLC model check of the loading pipeline (identifier-attribute check, null check, one lookup per signature id, '
      'filter, count check) against the definitional pairing for all genome sets with null patterns and all duplicate-free signature-'
      'id sequences incl. unrelated ids, plus the directory-listing rule over all subsets; conformance: real database directories '
      '(sqlite through the repo\'s models, .gs through dump_signatures) for every order of 4 genome signatures + 1 unrelated one for each of '
      'the four identifier attributes, every way of violating completeness, and all 64 subsets of a 6-entry listing; TLC judges the '
      'load outcome, the genome/signature pairing, and - for loaded databases probed through query() with several chunk sizes - every '
      'reported distance against the distance recomputed from the sequences of the genome\'s OWN contigs.',
      TRUSTED + 'sqlite / HDF5 are used as builders; identifier values are tokenised injectively.',
      'TLA+ spec (RefDbDef, RefDb, World) model-checked with TLC; TLC judges load outcomes, pairings and per-genome distances of real databases',
      'DESIGN.md 5 (C04)')

check('C14',
      'TLC model check of command histories over `dist` / `query` with three parameter sets: no comparison of mismatched parameters, '
      'every command either writes a result or fails; the if-chain of `dist` equals the definitional rule ("everything pinned down by a '
      'signature source or by -k/-p must agree") on the whole table; negative control `query -s` without a check. Conformance '
      '(generator): TLC emits the full decision table (305 rows: explicit none / partial / 4 parameter sets x query source x reference '
      'source incl. database and --square, plus query files / -s) with the required outcome; every row is run through the real command '
      'line: exit status, result written or not, and on success every cell is recomputed by TLC from the sequences under the parameters '
      'the specification selects.',
      TRUSTED + '`tree -s FILE -k/-p` (single source) is outside the statement.',
      'TLA+ spec (Cli) model-checked with TLC; TLC-generated decision table replayed on the real CLI and judged by TLC',
      'DESIGN.md 5 (C14)')

check('C16',
      'TLC checks of the CSV reader/writer round trip, of the matrix/pairwise loops and of the parameter selection; conformance: all '
      '3 x 5 ways of supplying queries and references (files, list file + base directory, signature file, database with an unrelated '
      'extra signature, --square; plus references sharing the queries\' file names but not their contents) x -k/-p given or defaulted x '
      'core counts, with awkward file names and ids; TLC parses the raw CSV text (RFC 4180), derives every label from the path with the '
      'specification\'s Label operator, recomputes every cell from the nucleotide sequences (correct 4-decimal rounding), checks '
      'symmetry / zero diagonal of --square and its equality with the same genomes on both sides.',
      TRUSTED + 'A cell within 1/80 unit of an exact rounding tie may be either neighbour.',
      'TLA+ spec (World, Labels, Csv, BulkDist, Cli) model-checked with TLC; TLC parses and judges the real command\'s CSV output',
      'DESIGN.md 5 (C16)')

check('C17',
      'TLC model check of average-linkage clustering as a nondeterministic merge relation (any minimum-average pair may merge) on all '
      'metric integer matrices over 4 leaves with zeros and ties: heights never decrease, partition, n-1 merges, ultrametric cophenetic '
      'heights; conformance: `gambit tree` on genome sets of 2..6 members (identical, equidistant, nested, cluster-joins-cluster, random) '
      'through files, list file, signature files with string ids needing Newick quoting / Unicode and with integer ids; the Newick text '
      'is parsed by an independent parser and TLC replays the observed merges on the exact distance matrix recomputed from the '
      'sequences: every merge must be a minimum-average pair with the exact height, leaves = labels, binary, non-negative branches, '
      'equidistant leaves, path length = 2 x merge height.',
      TRUSTED + 'Heights are snapped to the exact grid 1/21600 (scenarios keep unions <= 6 k-mers), anything further than 1e-6 from it is rejected.',
      'TLA+ spec (UpgmaDef, Upgma, World, Labels) model-checked with TLC; TLC replays merges parsed from the real Newick output',
      'DESIGN.md 5 (C17)')

check('C11',
      'TLC checks the RFC 4180 reader/writer round trip over a bounded table scope; conformance: real query results on synthetic '
      'databases whose taxon names, genome descriptions and labels contain commas, quotes, LF, CRLF, tabs and non-ASCII text, covering '
      'no prediction, unreportable predicted taxon, distance exactly 0, failed strict results with warnings, inputs without source file '
      'and integer ids, are exported by the three exporters (plain and pretty) and by `gambit query -f csv|json|archive`; TLC parses the '
      'raw CSV text itself (and requires Python\'s csv reader to agree), checks the documented header and every column against the result '
      'items (numeric cells as bit patterns); the JSON must parse strictly and carry the same label / taxa / closest-genome data; the '
      'archive is read back against the same session and must be == and identical field by field (distances bit for bit, warnings, '
      'error, parameters, timestamp, extra).',
      TRUSTED + 'JSON syntax validity is decided by Python\'s json; lone CRs in names are excluded.',
      'TLA+ spec (Csv) checked with TLC; TLC parses and judges the real exporters\' output against projections of the result objects',
      'DESIGN.md 5 (C11)')

check('C08',
      'The system specification World (contigs -> signature -> float32 distance -> classification, all recomputed by TLC from the '
      'nucleotide sequences) defines the row of a genome without mentioning the batch; its parts are model-checked (executor order, '
      'matrix loop, lineage walks). Conformance: a synthetic database (signature order != genome order, identical references, '
      'threshold-less and unreportable taxa, awkward names) is queried through the real command line with every single genome, ordered '
      'pairs/triples, full and repeated batches and different genomes with colliding labels x channel {positional, list file + base '
      'directory, pre-computed signature file} x gzip / FASTA extensions x -c {1,2,5,16} x progress on/off x {csv, json, archive}, and '
      'through query_parse with several chunk sizes and pool kinds; TLC judges row count, order, labels (Label operator) and the full '
      'content of every row, including the closest-genomes list.',
      TRUSTED + 'Thresholds are float32-exact; CLI runs are subprocesses.',
      'TLA+ system spec (World, Labels + component models) with TLC; TLC judges every output row of real CLI / library batches',
      'DESIGN.md 5 (C08)')

check('C18',
      'TLC model check of all histories (depth 6/9) of read-side commands and library calls (load, edit, add, delete, flush, commit, '
      'begin-block, rollback, query, close, read signatures; CLI query / dist --use-db / signatures info / create --db-params / tree, '
      'failing commands): the database files and the directory listing never change and nothing is ever emitted to the connection; '
      'negative controls: ordinary session, a flush guard that forgets deletions, signature file opened r+. Conformance (generator + '
      'judge): histories generated by TLC (random walks + library-heavy ones) are replayed on private copies of the synthetic and of '
      'the bundled test database; after EVERY step sha256/size of every file and the listing are taken; TLC judges every step against '
      'the read-only session\'s step relation (files unchanged, commit refused, failing commands fail, pending changes never flushed).',
      TRUSTED + 'Content identity = sha256 + size of every regular file in the directory.',
      'TLA+ spec (DbSessionDef, DbWorld) model-checked with TLC incl. negative controls; TLC-generated histories replayed and judged step by step',
      'DESIGN.md 5 (C18)')
