from .manifest_reg import check, NOT_APPLICABLE  # noqa

TRUSTED = ('Trusted base: TLC/SANY and the CommunityModules Java overrides; the TLA+ definitions (written from the property '
           'statement, cross-checked by algorithm==definition model checks and negative controls); the harness projection '
           '(bytes<->int lists, base-4 digit expansion, IEEE bit-field extraction, rank abstraction). ')

check('C07',
      'Exhaustive TLC model check of the four conversion loops (shift-add encode, reverse encode, mod/div decode, revcomp) '
      'against the definitional base-4 code over a 15-byte adversarial alphabet, plus byte-range lemmas over all 256 bytes; '
      'conformance: TLC judges call records of the real kmer_to_index / kmer_to_index_rc / index_to_kmer / revcomp on every '
      'k-mer k<=6 (quick) / k<=8 (thorough) in three case patterns, every byte string of length <=2 over 0..255, boundary '
      'k-mers for every k<=33 in all four input types, and seeded random k-mers/indices up to 2^64-1.',
      TRUSTED + 'k>15 indices are compared as digit tuples because TLC integers are 32-bit.',
      'TLA+ spec (Nucleotide, KmerCodec) model-checked with TLC; TLC judges exhaustive call records of the real code',
      'DESIGN.md 5 (C07)')
