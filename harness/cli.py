"""Run the real `gambit` command line in subprocesses (the click test runner does not work in this environment)."""
import os
import subprocess
from concurrent.futures import ThreadPoolExecutor

PY = '/venv/bin/python'


def run_cli(args, cwd=None, env=None, timeout=600, stdin=None):
    e = dict(os.environ, PYTHONHASHSEED='0')
    e.pop('GAMBIT_DB_PATH', None)
    if env:
        e.update(env)
    p = subprocess.run([PY, '-W', 'ignore', '-m', 'gambit'] + [str(a) for a in args], cwd=cwd, env=e, stdout=subprocess.PIPE,
                       stderr=subprocess.PIPE, text=True, timeout=timeout, input=stdin)
    return p.returncode, p.stdout, p.stderr


def run_many(jobs, parallel=14):
    """jobs: list of (args, kwargs) for run_cli -> list of (rc, out, err) in order"""
    with ThreadPoolExecutor(parallel) as ex:
        futs = [ex.submit(run_cli, a, **k) for a, k in jobs]
        return [f.result() for f in futs]
