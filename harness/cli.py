"""Run the real `gambit` command line in subprocesses (the click test runner does not work in this environment)."""
import os
import subprocess
from concurrent.futures import ThreadPoolExecutor

PY = '/venv/bin/python'


def run_cli(args, cwd=None, env=None, timeout=600, stdin=None):
    e = dict(os.environ, PYTHONHASHSEED='0')
    e.pop('GAMBIT_DB_PATH', None)
    if env:
        e.update(env)
    # bytes are captured and decoded here: text mode would translate CR / CRLF inside quoted CSV fields written to standard output
    p = subprocess.run([PY, '-W', 'ignore', '-m', 'gambit'] + [str(a) for a in args], cwd=cwd, env=e, stdout=subprocess.PIPE,
                       stderr=subprocess.PIPE, timeout=timeout, input=stdin.encode() if isinstance(stdin, str) else stdin)
    return p.returncode, p.stdout.decode('utf-8', errors='replace'), p.stderr.decode('utf-8', errors='replace')


def run_many(jobs, parallel=14):
    """jobs: list of (args, kwargs) for run_cli -> list of (rc, out, err) in order"""
    with ThreadPoolExecutor(parallel) as ex:
        futs = [ex.submit(run_cli, a, **k) for a, k in jobs]
        return [f.result() for f in futs]


# renderings of a list file (spec/ListFile.tla: Render / Styles): line ending x final terminator x blank lines x padding
LIST_STYLES = [dict(eol=e, final=f, blanks=b, pad=p) for e in ('lf', 'crlf', 'cr') for f in (True, False) for b in (False, True) for p in (False, True)]


def render_listfile(names, style):
    """the text of a list file holding `names` in rendering `style` (index into LIST_STYLES or a style dict); mirrors ListFile!Render"""
    st = LIST_STYLES[style % len(LIST_STYLES)] if isinstance(style, int) else style
    eol = {'lf': '\n', 'crlf': '\r\n', 'cr': '\r'}[st['eol']]
    out = []
    for i, nm in enumerate(names):
        last = i == len(names) - 1
        out.append((' \t' if st['pad'] else '') + nm + (' ' if st['pad'] else ''))
        if not last or st['final']:
            out.append(eol)
        if st['blanks'] and not last:
            out.append(eol + ' ' + eol)
    return ''.join(out)


def write_listfile(path, names, style):
    with open(path, 'w', newline='') as f:
        f.write(render_listfile(names, style))
    return path
