"""Shared plumbing of all property checks: context, evidence, findings, violations, replays."""
import hashlib
import json
import os
import random
import sys
import time
import traceback

from . import tlc

VERIF = tlc.VERIF
EVIDENCE_DIR = os.path.join(VERIF, 'evidence')
REPLAY_DIR = os.path.join(VERIF, 'replays')
FINDINGS_FILE = os.path.join(VERIF, 'known_findings.txt')


def canon(obj):
    return json.dumps(obj, sort_keys=True, separators=(',', ':'), default=str)


def short_hash(obj):
    return hashlib.sha1(canon(obj).encode()).hexdigest()[:16]


def load_findings():
    """known_findings.txt -> ({(property, key): description}, [fixed lines]).  Never written at run time."""
    known, fixed = {}, []
    if os.path.exists(FINDINGS_FILE):
        for line in open(FINDINGS_FILE):
            line = line.strip()
            if not line or line.startswith('#'):
                continue
            if line.startswith('known:'):
                parts = line[len('known:'):].split()
                kv = dict(p.split('=', 1) for p in parts[:2] if '=' in p)
                known[(kv.get('property'), kv.get('key'))] = ' '.join(parts[2:])
            elif line.startswith('fixed:'):
                fixed.append(line)
    return known, fixed


class Ctx:
    """State of one check run (one property, one tier)."""

    def __init__(self, pid, tier, seed, level='model_checking'):
        self.pid = pid
        self.tier = tier
        self.seed = seed
        self.level = level
        self.rng = random.Random(seed)
        self.t0 = time.time()
        self.states = 0
        self.transitions = 0
        self.model_runs = []
        self.negative_controls = []
        self.traces = 0            # records / traces / behaviours of the real code judged by (or replayed from) the spec
        self.evaluations = 0
        self.nontrivial_keys = set()
        self.samples = []
        self.families = []
        self.assumptions = []
        self.notes = []
        self.rule_parts = []
        self.exhaustive_all = True
        self.violations = []       # (key, replay_path, why)
        self.known_hits = []
        self.known, self.fixed = load_findings()
        self.selftests = []

    # ---------------------------------------------------------------- model checking
    def mc(self, module, cfg=None, *, expect=None, workers=8, coverage=True, require_actions=(), env=None,
           timeout=3600, note='', xmx='4g', extra=(), count=True, overrides=None):
        """Exhaustive TLC run.  expect=None: must pass.  expect='<substr>': negative control, must be violated
        with a violation name containing the substring.  Returns TLCResult."""
        res = tlc.run_tlc(module, cfg, workers=workers, coverage=coverage, env=env, timeout=timeout, xmx=xmx, extra=extra,
                          overrides=overrides)
        entry = dict(module=module, cfg=(cfg or module + '.cfg') + (' ' + canon(overrides) if overrides else ''), states=res.distinct, generated=res.generated,
                     depth=res.depth, wall_s=round(res.wall_s, 1), violated=res.violated, note=note)
        if coverage and res.coverage:
            entry['action_coverage'] = {k: v[1] for k, v in res.coverage.items()}
        if expect is None:
            if res.violated:
                raise tlc.MachineryError(
                    f'model check {module}/{cfg} unexpectedly violated {res.violated} (specification inconsistency)\n'
                    + res.out[-6000:])
            for a in require_actions:
                if res.coverage.get(a, (0, 0))[1] == 0:
                    raise tlc.MachineryError(f'vacuity: action {a} never taken in {module}/{cfg}')
            if count:
                self.states += res.distinct
                self.transitions += res.generated
            self.model_runs.append(entry)
        else:
            if expect not in res.violated:
                raise tlc.MachineryError(
                    f'negative control {module}/{cfg} should violate {expect!r} but got {res.violated!r}\n' + res.out[-3000:])
            entry['expected_violation'] = expect
            self.negative_controls.append(entry)
        return res

    def mc_parallel(self, jobs, max_parallel=4):
        """jobs: list of dict(kwargs for mc incl. module).  Run several model checks concurrently."""
        from concurrent.futures import ThreadPoolExecutor
        with ThreadPoolExecutor(max_workers=max_parallel) as ex:
            futs = [ex.submit(self.mc, **j) for j in jobs]
            return [f.result() for f in futs]

    # ---------------------------------------------------------------- conformance bookkeeping
    def add_samples(self, items, limit=4):
        for it in items:
            if len(self.samples) >= 12:
                return
            if limit <= 0:
                return
            s = canon(it)
            if len(s) > 1500:
                s = s[:1500] + '...'
            self.samples.append(json.loads(s) if not s.endswith('...') else s)
            limit -= 1

    def report(self, family, inputs, record, why, key=None, describe=''):
        """Register a rejected record/trace.  Writes the replay file; prints VIOLATION or KNOWN-FINDING."""
        key = key or short_hash([family, inputs])
        d = os.path.join(REPLAY_DIR, self.pid)
        os.makedirs(d, exist_ok=True)
        path = os.path.join(d, f'{family}-{short_hash([family, inputs])}.json')
        with open(path, 'w') as f:
            json.dump(dict(property=self.pid, family=family, key=key, inputs=inputs, record=record, why=why,
                           describe=describe), f, indent=1, default=str)
        if (self.pid, key) in self.known:
            if key not in [k for k, _ in self.known_hits]:
                print(f'KNOWN-FINDING: property={self.pid} {key} {self.known[(self.pid, key)]}', flush=True)
            self.known_hits.append((key, path))
        else:
            self.violations.append((key, path, why))
            if len(self.violations) <= 25:
                print(f'VIOLATION property={self.pid} replay={path}', flush=True)
                print(f'  family={family} key={key} why={why} {describe}'[:600], flush=True)

    # ---------------------------------------------------------------- evidence
    def write_evidence(self, crashed=None):
        os.makedirs(EVIDENCE_DIR, exist_ok=True)
        cov = dict(
            states=self.states,
            transitions=self.transitions,
            traces_validated_against_impl=self.traces,
            samples=self.samples or ['(none)'],
            evaluations=self.evaluations,
            distinct_nontrivial=len(self.nontrivial_keys),
            rule='; '.join(self.rule_parts),
            exhaustive=bool(self.exhaustive_all),
            model_runs=self.model_runs,
            negative_controls=self.negative_controls,
            families=self.families,
            selftests=self.selftests,
            known_findings_hit=[k for k, _ in self.known_hits],
            notes=self.notes,
        )
        ev = dict(property_id=self.pid, tier=self.tier, seed=self.seed, level=self.level, coverage=cov,
                  assumptions=self.assumptions, wall_s=round(time.time() - self.t0, 2),
                  violations=len(self.violations))
        if crashed:
            ev['coverage']['machinery_failure'] = crashed
        with open(os.path.join(EVIDENCE_DIR, f'{self.pid}.json'), 'w') as f:
            json.dump(ev, f, indent=1, default=str)


class Family:
    """A family of call records: inputs -> (real code) -> record -> (TLC judge) -> verdict.

    Subclasses define: name, judge (TLA+ module), inputs(ctx) -> iterable of JSON-able inputs,
    execute(inp) -> record (JSON-able dict), nontrivial(inp, rec) -> hashable-or-None.
    """
    name = ''
    judge = ''
    cfg = None
    exhaustive = False
    rule = ''
    procs = 0            # >0: execute in a multiprocessing pool of that many processes
    always_selftest = True
    judge_env = None
    shards = None

    def inputs(self, ctx):
        raise NotImplementedError

    def execute(self, inp):
        raise NotImplementedError

    def nontrivial(self, inp, rec):
        return short_hash(inp)

    def key(self, inp, rec, why):
        return f'{self.name}:{short_hash(inp)}'

    def describe(self, inp, rec):
        return ''


def _exec_wrapper(args):
    fam, inp = args
    try:
        return fam.execute(inp)
    except Exception as e:   # the driver itself failed: machinery, not a verdict
        return {'__machinery__': f'{type(e).__name__}: {e}\n{traceback.format_exc()[-1500:]}'}


def run_family(ctx, fam, inputs=None):
    t0 = time.time()
    inputs = list(fam.inputs(ctx)) if inputs is None else list(inputs)
    if fam.procs and len(inputs) > 200:
        import multiprocessing as mp
        with mp.get_context('spawn').Pool(fam.procs) as pool:
            records = pool.map(_exec_wrapper, [(fam, i) for i in inputs], chunksize=max(1, len(inputs) // (fam.procs * 8)))
    else:
        records = [_exec_wrapper((fam, i)) for i in inputs]
    for r in records:
        if isinstance(r, dict) and '__machinery__' in r:
            raise tlc.MachineryError(f'driver {fam.name} failed: {r["__machinery__"]}')
    t1 = time.time()
    n, bad = tlc.judge(fam.judge, records, cfg=fam.cfg, env=fam.judge_env, shards=fam.shards)
    t2 = time.time()
    # confirm each rejection by re-executing once (guards against harness flukes); both must be rejected
    confirmed = []
    if bad:
        idxs = sorted({i for i, _ in bad})
        why = {}
        for i, w in bad:
            why.setdefault(i, w)
        rerun = [_exec_wrapper((fam, inputs[i])) for i in idxs[:200]]
        for r in rerun:
            if isinstance(r, dict) and '__machinery__' in r:
                raise tlc.MachineryError(f'driver {fam.name} failed on re-run: {r["__machinery__"]}')
        _, bad2 = tlc.judge(fam.judge, rerun, cfg=fam.cfg, env=fam.judge_env, shards=1)
        bad2 = {j for j, _ in bad2}
        for pos, i in enumerate(idxs[:200]):
            if pos in bad2:
                confirmed.append((i, why[i]))
            else:
                ctx.notes.append(f'{fam.name}: rejection of input #{i} not reproduced on re-run; ignored as harness fluke')
        for i in idxs[200:]:
            confirmed.append((i, why[i]))
    for i, w in confirmed:
        ctx.report(fam.name, inputs[i], records[i], w, key=fam.key(inputs[i], records[i], w),
                   describe=fam.describe(inputs[i], records[i]))
    nt = set()
    for inp, rec in zip(inputs, records):
        k = fam.nontrivial(inp, rec)
        if k is not None:
            nt.add((fam.name, k))
    ctx.nontrivial_keys |= nt
    ctx.traces += n
    ctx.evaluations += n
    ctx.exhaustive_all = ctx.exhaustive_all and fam.exhaustive
    if fam.rule:
        ctx.rule_parts.append(f'[{fam.name}] {fam.rule}')
    ctx.families.append(dict(name=fam.name, judge=fam.judge, records=n, rejected=len(confirmed), nontrivial=len(nt),
                             exhaustive=fam.exhaustive, exec_s=round(t1 - t0, 1), judge_s=round(t2 - t1, 1)))
    if hasattr(fam, 'corrupt') and records and (ctx.tier == 'thorough' or getattr(ctx, 'selftest', False) or fam.always_selftest):
        selftest_family(ctx, fam, inputs, records)
    if records:
        picks = [0, len(records) // 2, len(records) - 1]
        ctx.add_samples([dict(family=fam.name, inputs=inputs[i], record=records[i]) for i in sorted(set(picks))], limit=2)
    return records, confirmed


def selftest_family(ctx, fam, inputs, records, n=40):
    """Binding self-test: corrupt one field of some accepted records; the judge must reject every one."""
    import copy
    step = max(1, len(records) // n)
    corrupted = []
    for i in range(0, len(records), step):
        c = fam.corrupt(copy.deepcopy(records[i]))
        if c is not None:
            corrupted.append(c)
    if not corrupted:
        return
    _, bad = tlc.judge(fam.judge, corrupted, cfg=fam.cfg, env=fam.judge_env, shards=1)
    rejected = {i for i, _ in bad}
    entry = dict(family=fam.name, corrupted=len(corrupted), rejected=len(rejected))
    ctx.selftests.append(entry)
    if len(rejected) != len(corrupted):
        missed = [corrupted[i] for i in range(len(corrupted)) if i not in rejected][:3]
        raise tlc.MachineryError(f'self-test: judge {fam.judge} accepted {len(corrupted) - len(rejected)} corrupted '
                                 f'records of family {fam.name}, e.g. {canon(missed)[:800]}')


def run_concurrent(ctx, fam, inputs, nthreads=6, secs=3.0, name=None):
    """The same family executed from several Python threads at once (each thread loops over its own share of `inputs`), with a very short
    interpreter switch interval so that threads interleave inside Python-level code of the library.  For every input the record judged is
    a deviating one if any execution under concurrency produced a record different from the one produced alone afterwards, else the
    common record.  Catches state shared between calls through module globals, memo tables and caches."""
    import threading
    inputs = list(inputs)
    shares = [inputs[t::nthreads] for t in range(nthreads)]
    seen = [dict() for _ in inputs]
    index = {id(inp): k for k, inp in enumerate(inputs)}
    errors = []
    stop = threading.Event()

    def body(share):
        try:
            while not stop.is_set():
                for inp in share:
                    rec = fam.execute(inp)
                    seen[index[id(inp)]].setdefault(canon(rec), rec)
        except Exception:
            errors.append(traceback.format_exc()[-1500:])
            stop.set()

    old = sys.getswitchinterval()
    sys.setswitchinterval(1e-5)
    try:
        threads = [threading.Thread(target=body, args=(sh,)) for sh in shares if sh]
        for th in threads:
            th.start()
        stop.wait(secs)
        stop.set()
        for th in threads:
            th.join()
    finally:
        sys.setswitchinterval(old)
    if errors:
        raise tlc.MachineryError(f'driver {fam.name} failed under concurrency: {errors[0]}')
    table = {}
    for k, inp in enumerate(inputs):
        alone = fam.execute(inp)
        base = canon(alone)
        dev = next((r for c, r in sorted(seen[k].items()) if c != base), None)
        table[canon(inp)] = dev if dev is not None else alone

    class _Conc(type(fam)):
        pass
    cf = _Conc.__new__(_Conc)
    cf.__dict__.update(getattr(fam, '__dict__', {}))
    cf.name = name or (fam.name + '[threads]')
    cf.rule = (f'the inputs of a sample of {len(inputs)} scenarios executed from {nthreads} threads at once for {secs:g} s with a 10 microsecond switch interval; '
               f'a record that differs from the one produced alone is judged in its place')
    cf.exhaustive = False
    cf.procs = 0
    cf.execute = lambda inp: table[canon(inp)]
    return run_family(ctx, cf, inputs=inputs)


def raised_by_code_under_test(text):
    """Did the exception of this traceback (text) arise inside a call the harness made into the repository's code - i.e. is there a frame
    of the repository's own sources below the last harness frame?  Then it came out of the code under test (or a library it called)
    while the harness was driving it the way it does - successfully - on the unchanged tree: a verdict about the code, not a failure of
    the machinery.  Returns (file, function) of the deepest repository frame, or None."""
    import re
    frames = re.findall(r'File "([^"]+)", line \d+, in (\S+)', text or '')
    if not frames:
        return None
    last_harness = max([i for i, (f, _) in enumerate(frames) if '/harness/' in f], default=-1)
    inside = [(f, fn) for f, fn in frames[last_harness + 1:] if '/src/gambit/' in f]
    if inside:
        fname, func = inside[-1]
        return os.path.basename(fname), func
    return None


RERUN = object()      # marker: replay by re-running the check and looking for the same violation key


def main(pid, run, replay=None, argv=None):
    """Entry used by /verif/check.  run(ctx) performs the check; replay(ctx, scenario) re-runs one scenario."""
    import argparse
    ap = argparse.ArgumentParser()
    ap.add_argument('--tier', default=os.environ.get('VERIF_TIER', 'quick'), choices=['quick', 'thorough'])
    ap.add_argument('--replay')
    ap.add_argument('--selftest', action='store_true')
    args = ap.parse_args(argv)
    seed = int(os.environ.get('VERIF_SEED', '20261004'))
    ctx = Ctx(pid, args.tier, seed)
    ctx.selftest = args.selftest
    try:
        if args.replay:
            scen = json.load(open(args.replay))
            if replay is None:
                print('replay not supported for this property', file=sys.stderr)
                return 2
            res = RERUN if (replay is RERUN or scen.get('family') == 'unexpected-exception') else replay(ctx, scen)
            if res is RERUN:
                # scenarios of this check depend on a world built by the check itself: re-run the quick tier and look for the
                # same violation key
                ctx.tier = 'quick'
                try:
                    run(ctx)
                except Exception as e2:
                    txt = str(e2) if isinstance(e2, tlc.MachineryError) else traceback.format_exc()
                    if scen.get('family') == 'unexpected-exception' and raised_by_code_under_test(txt):
                        print('REPLAY still violates')
                        return 1
                    raise
                ok = scen.get('key') not in [k for k, _, _ in ctx.violations]
            else:
                ok = res
            print('REPLAY ' + ('passes (property holds on this scenario)' if ok else 'still violates'))
            return 0 if ok else 1
        from . import rebuild
        for note in rebuild.ensure_native():
            ctx.assumptions.append(note)
            print('NOTE ' + note, flush=True)
        run(ctx)
    except Exception as e:
        text = str(e) if isinstance(e, tlc.MachineryError) else traceback.format_exc()
        where = None if args.replay else raised_by_code_under_test(text)
        if where is None and ctx.violations and not args.replay:
            # rejections judged by TLC and confirmed by re-execution were already reported; a later failure of the machinery (typically a
            # self-test that no longer fits because the code misbehaves) does not take the verdict back
            print(f'NOTE property={pid}: the run ended early after reporting violations: {str(e)[:300]}', file=sys.stderr, flush=True)
            ctx.notes.append(f'run ended early after violations were reported: {str(e)[:500]}')
            ctx.write_evidence()
            print(f'{pid} {args.tier}: violations={len(ctx.violations)} (run ended early)', flush=True)
            return 1
        if where is None:
            if not isinstance(e, tlc.MachineryError):
                traceback.print_exc()
            print(f'MACHINERY-FAILURE property={pid}: {e if isinstance(e, tlc.MachineryError) else type(e).__name__ + ": " + str(e)}', file=sys.stderr, flush=True)
            ctx.write_evidence(crashed=str(e)[:2000])
            return 2
        # the code under test raised where it does not on the unchanged tree: reported as a violation (the scenario is the check itself)
        last = text.strip().splitlines()[-1][:200]
        ctx.report('unexpected-exception', dict(tier=args.tier, seed=seed), dict(traceback=text[-3000:]),
                   ['the-code-under-test-raised-an-exception-the-specification-does-not-allow-here'],
                   key=f'unexpected-exception:{where[0]}:{where[1]}', describe=f'{last} (innermost frame {where[0]}:{where[1]})')
        ctx.notes.append('the run ended early: an exception came out of the code under test; coverage figures are partial')
    ctx.write_evidence()
    nv = len(ctx.violations)
    print(f'{pid} {args.tier}: states={ctx.states} transitions={ctx.transitions} judged={ctx.traces} '
          f'nontrivial={len(ctx.nontrivial_keys)} violations={nv} known={len(ctx.known_hits)} '
          f'wall={time.time() - ctx.t0:.1f}s', flush=True)
    return 1 if nv else 0
