CHECKS = {}
NOT_APPLICABLE = {}


def check(pid, text, note, technique, design_ref, category='model_checking'):
    CHECKS[pid] = dict(text=text, note=note, technique=technique, design_ref=design_ref, category=category)
