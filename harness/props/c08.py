"""C08 - query output rows: one per input, in order, correctly labelled, context-free."""
import csv
import io
import itertools
import json
import os
import random
import shutil

import numpy as np

from gambit.db import ReferenceDatabase
from gambit.kmers import KmerSpec
from gambit.query import query_parse, QueryParams
from gambit.results import CSVResultsExporter
from gambit.seq import SequenceFile
from gambit.sigs import SignatureArray, AnnotatedSignatures, SignaturesMeta, dump_signatures
from .. import core, tlc, cli
from ..enc import blist, f32_bits
from .. import world as W
from .c11 import cps, num_cell


def db_for_tlc(w, order):
    genomes = [w['genomes'][i] for i in order]
    d = W.world_for_tlc(dict(w, genomes=genomes))
    d.update(tname=[cps(t['name']) for t in w['taxa']], trank=[[] if t['rank'] is None else cps(t['rank']) for t in w['taxa']],
             tncbi=[-1 if t['ncbi_id'] is None else t['ncbi_id'] for t in w['taxa']],
             gdesc=[cps(g['desc']) for g in genomes], gkey=[cps(g['key']) for g in genomes])
    return d


def tax_from_cells(name, rank, ncbi, thr):
    some = name != ''
    return dict(some=some, name=cps(name), rank=cps(rank), ncbi=num_cell(ncbi, 'int') if some else -1, thr=num_cell(thr, 'f') if some else -1)


def tax_from_json(d):
    if d is None:
        return dict(some=False, name=[], rank=[], ncbi=-1, thr=-1)
    return dict(some=True, name=cps(d['name']), rank=[] if d['rank'] is None else cps(d['rank']), ncbi=-1 if d['ncbi_id'] is None else d['ncbi_id'],
                thr=-1 if d['distance_threshold'] is None else f32_bits(d['distance_threshold']))


BLANK_ROW = dict(label=[], report=tax_from_json(None), next=tax_from_json(None), has_closest=False, closest_d=-1, closest_desc=[], has_list=False, list=[])


def rows_from_csv(text):
    rows = []
    for row in list(csv.reader(io.StringIO(text, newline='')))[1:]:
        row = row + [''] * 11
        rows.append(dict(BLANK_ROW, label=cps(row[0]), report=tax_from_cells(row[1], row[2], row[3], row[4]), next=tax_from_cells(row[7], row[8], row[9], row[10]),
                         has_closest=True, closest_d=num_cell(row[5], 'f'), closest_desc=cps(row[6])))
    return rows


def rows_from_json(text):
    rows = []
    for it in json.loads(text)['items']:
        cg = it['closest_genomes']
        rows.append(dict(BLANK_ROW, label=cps(it['query']['name']), report=tax_from_json(it['predicted_taxon']), next=tax_from_json(it['next_taxon']),
                         has_closest=bool(cg), closest_d=f32_bits(cg[0]['distance']) if cg else -1, closest_desc=cps(cg[0]['genome']['description']) if cg else [],
                         has_list=True, list=[dict(key=cps(m['genome']['key']), d=f32_bits(m['distance'])) for m in cg]))
    return rows


def rows_from_archive(text, w):
    tax_by_key = {f'tax{i + 1}': t for i, t in enumerate(w['taxa'])}
    desc_by_key = {g['key']: g['desc'] for g in w['genomes']}

    def tv(d):
        if d is None:
            return tax_from_json(None)
        t = tax_by_key[d['key']]
        return dict(some=True, name=cps(t['name']), rank=[] if t['rank'] is None else cps(t['rank']), ncbi=-1 if t['ncbi_id'] is None else t['ncbi_id'],
                    thr=-1 if t['thr'] is None else f32_bits(t['thr']))
    rows = []
    for it in json.loads(text)['items']:
        c = it['classifier_result']
        rows.append(dict(BLANK_ROW, label=cps(it['input']['label']), report=tv(it['report_taxon']), next=tv(c['next_taxon']), has_closest=True,
                         closest_d=f32_bits(c['closest_match']['distance']), closest_desc=cps(desc_by_key[c['closest_match']['genome']['key']]),
                         has_list=True, list=[dict(key=cps(m['genome']['key']), d=f32_bits(m['distance'])) for m in it['closest_genomes']]))
    return rows


def strict_archive_independence(ctx):
    """`query --strict -f archive` (the one format that carries the classifier's warnings): every genome's complete item alone and inside
    batches that hold genomes drawing warnings (matches in two trees; primary match not the closest)"""
    tmp = tlc.mktmp('c08s-')
    try:
        w = W.default_world(ctx.seed + 2)
        dbdir = os.path.join(tmp, 'db')
        W.build_db(dbdir, w)
        g = w['genomes']
        pool = W.query_pool(w, seed=ctx.seed + 9)[:5]
        pool.append(dict(name='q_two_roots', contigs=g[0]['contigs'] + g[6]['contigs']))
        pool.append(dict(name='q_two_species', contigs=g[0]['contigs'] + g[4]['contigs']))
        paths = [W.write_fasta(os.path.join(tmp, 'g', q['name'] + '.fasta'), q['contigs']) for q in pool]
        n = len(pool)
        batches = [[i] for i in range(n)] + [list(range(n)), list(range(n))[::-1], [5, 0], [0, 5], [6, 1, 5], [1, 6], [4, 5, 6, 0]]
        jobs = [(['-d', dbdir, 'query', '--strict', '-f', 'archive', '--no-progress', '-c', str(1 + bi % 3), '-o', os.path.join(tmp, f'o{bi}.json')] + [paths[i] for i in b], dict(cwd=tmp))
                for bi, b in enumerate(batches)]
        results = cli.run_many(jobs)
        items = []
        for bi, (b, (rc, so, se)) in enumerate(zip(batches, results)):
            try:
                data = json.load(open(os.path.join(tmp, f'o{bi}.json'))) if rc == 0 else None
                items.append([json.dumps(it, sort_keys=True) for it in data['items']] if data and len(data['items']) == len(b) else None)
            except Exception:
                items.append(None)
        recs, warned = [], 0
        for bi, b in enumerate(batches[n:], start=n):
            for pos, gi in enumerate(b):
                ok = items[gi] is not None and items[bi] is not None
                recs.append(dict(genome=pool[gi]['name'], batch=[pool[j]['name'] for j in b], pos=pos, ok=ok,
                                 alone=cps(items[gi][0]) if ok else [], inbatch=cps(items[bi][pos]) if ok else []))
        warned = sum(1 for i in range(n) if items[i] and json.loads(items[i][0])['classifier_result']['warnings'])
        if warned == 0:
            raise tlc.MachineryError('strict-archive-independence: no genome of the pool draws a classifier warning (family would be vacuous)')
        nj, bad = tlc.judge('Judge_Indep', recs, shards=1)
        for i, why in bad:
            r = recs[i]
            ctx.report('strict-archive-independence', dict(genome=r['genome'], batch=r['batch'], pos=r['pos']), dict(ok=r['ok'], alone=''.join(map(chr, r['alone']))[-400:], inbatch=''.join(map(chr, r['inbatch']))[-400:]), why,
                       key=f'strict-archive:{r["genome"]}:{why[0] if why else ""}', describe=f'{r["genome"]} in batch {r["batch"]} at {r["pos"]}')
        ctx.traces += nj
        ctx.evaluations += nj
        for r in recs:
            ctx.nontrivial_keys.add(('strict-archive', r['genome'], tuple(r['batch'])))
        import copy
        c1 = copy.deepcopy(recs[0]); c1['inbatch'] = c1['inbatch'][:-2] + [48] + c1['inbatch'][-1:]
        _, b2 = tlc.judge('Judge_Indep', [c1], shards=1)
        if len(b2) != 1:
            raise tlc.MachineryError('self-test: Judge_Indep accepted a corrupted record')
        ctx.selftests.append(dict(family='strict-archive-independence', corrupted=1, rejected=1))
        ctx.families.append(dict(name='strict-archive-independence', records=nj, rejected=len(bad), judge='Judge_Indep', genomes_with_warnings=warned))
        ctx.rule_parts.append(f'[strict-archive-independence] {n} genomes ({warned} of them drawing classifier warnings in strict mode) queried alone and in {len(batches) - n} batches with '
                              '`query --strict -f archive`: the complete item (warnings, error, matches) of a genome is the same alone and at every position of every batch')
    finally:
        shutil.rmtree(tmp, ignore_errors=True)


def run(ctx):
    ctx.mc('System', 'MC_System.cfg', require_actions=['SigCreate', 'QueryFiles', 'QuerySigsAny', 'DistSigsAny'], workers=8,
           overrides=dict(MaxCmds=4 if ctx.tier == 'quick' else 5),
           note='command histories (signatures create / query files / query -s / dist): a genome gives the same row through every channel, batch and position; no mismatched comparison; database immutable')
    ctx.mc('CalcFiles', 'MC_CalcFiles.cfg', workers=8, note='signature computation of a batch keeps file order under every completion order (shared with C13)')
    ctx.mc('BulkDist', 'MC_BulkDist.cfg', workers=8, overrides=dict(MaxQ=2, MaxR=3, MaxSel=3, MaxChunk=3), note='distance matrix of a batch: row i holds the distances of query i (shared with C05)')
    ctx.mc('ClassifyAlgo', 'MC_ClassifyAlgo.cfg', workers=16, overrides=dict(N=2, MaxRank=1), note='per-row classification (shared with C03)')
    # which file a path names: operating-system resolution (links, `..`) versus textual clean-up, then the real channel functions
    ctx.mc('MC_PathResolve', 'MC_PathResolve.cfg', coverage=False, workers=1, overrides=dict(MaxLen=4),
           note='constant-level lemmas over 6 file systems x 4681 paths: textual normalisation is harmless without links, wrong behind a directory link; '
                '"." and doubled separators are neutral; links are transparent; cycles fail')
    from .. import paths
    pfam = paths.PathResolution()
    try:
        core.run_family(ctx, pfam)
    finally:
        pfam.cleanup()
    strict_archive_independence(ctx)
    rng = random.Random(ctx.seed)
    tmp = tlc.mktmp('c08-')
    try:
        w = W.default_world(ctx.seed, names='fancy')
        order = [3, 0, 5, 1, 8, 2, 7, 4, 6]                      # signature file order != genome set order
        dbdir = os.path.join(tmp, 'db')
        W.build_db(dbdir, w, sig_order=order)
        dbt = db_for_tlc(w, order)
        pool = W.query_pool(w, seed=ctx.seed + 3)
        pool.append(dict(name='q_copy_of_0', contigs=list(pool[0]['contigs'])))     # the same genome under two names
        qdir = os.path.join(tmp, 'genomes')
        files = {}
        exts = ['.fasta', '.fa.gz', '.fna', '.fasta.gz', '.fa', '.fasta', '.ffn.gz']
        for i, q in enumerate(pool):
            nm = q['name'] + exts[i % len(exts)]
            files[i] = (nm, W.write_fasta(os.path.join(qdir, nm), q['contigs'], gz=nm.endswith('.gz'), members=[1, 3, 2][i % 3], width=[60, 7, 1000][i % 3], eol=['\n', '\r\n'][i % 2], mixed=(i % 3 == 1), lower=(i % 7 == 5)))
        # different genomes whose labels collide (same base name in two directories; x.fa vs x.fasta)
        # stacked extensions (only one FASTA extension is stripped: labels x.fa / y.fna), and a genome reached through a symbolic link
        # with another base name (the label comes from the name given on the command line)
        for nm, qi in (('x.fa.fasta', 1), ('y.fna.fasta.gz', 5)):
            files[len(files)] = (nm, W.write_fasta(os.path.join(qdir, nm), pool[qi]['contigs'], gz=nm.endswith('.gz')))
            pool.append(dict(name=nm, contigs=pool[qi]['contigs']))
        target = W.write_fasta(os.path.join(tmp, 'store', 'blob_0001.fasta'), pool[6 % len(pool)]['contigs'])
        os.symlink(target, os.path.join(qdir, 'linked_sample.fna'))
        files[len(files)] = ('linked_sample.fna', os.path.join(qdir, 'linked_sample.fna'))
        pool.append(dict(name='linked_sample.fna', contigs=pool[6 % len(pool)]['contigs']))
        # a file whose name holds a form feed, a NEL and a Unicode line separator: ordinary characters inside a list-file entry
        odd = 'odd\x0cname\x85with\u2028separators.fa'
        files[len(files)] = (odd, W.write_fasta(os.path.join(qdir, odd), pool[2]['contigs']))
        pool.append(dict(name=odd, contigs=pool[2]['contigs']))
        crlf = 'sample\r\nrun2.fasta'
        files[len(files)] = (crlf, W.write_fasta(os.path.join(qdir, crlf), pool[4]['contigs']))
        pool.append(dict(name=crlf, contigs=pool[4]['contigs']))
        # a name with a `..` step behind a symbolic link to a directory: the operating system resolves `link/..` to the parent of the link's
        # TARGET, where the genome is; a different genome with the same name sits where a textual clean-up of the path would look
        os.makedirs(os.path.join(tmp, 'elsewhere', 'deep'))
        os.symlink(os.path.join(tmp, 'elsewhere', 'deep'), os.path.join(qdir, 'via'))
        W.write_fasta(os.path.join(tmp, 'elsewhere', 'detour sample.fasta'), pool[5]['contigs'])
        W.write_fasta(os.path.join(qdir, 'detour sample.fasta'), pool[1]['contigs'])
        dot = 'via/../detour sample.fasta'
        files[len(files)] = (dot, os.path.join(qdir, dot))
        pool.append(dict(name=dot, contigs=pool[5]['contigs']))
        # ... and one with redundant `.` and doubled separators (same file, other spelling)
        dot2 = './/run1/.//sample.fasta'
        W.write_fasta(os.path.join(qdir, 'run1', 'sample.fasta'), pool[0]['contigs'])
        files[len(files)] = (dot2, os.path.join(qdir, dot2))
        pool.append(dict(name=dot2, contigs=pool[0]['contigs']))
        for nm, qi in (('run1/sample.fasta', 0), ('run2/sample.fasta', 4), ('x.fa', 2), ('x.fasta', 3)):
            files[len(files)] = (nm, W.write_fasta(os.path.join(qdir, nm), pool[qi]['contigs']))
            pool.append(dict(name=nm, contigs=pool[qi]['contigs']))
        ks = KmerSpec(*w['kspec'])
        sig_ids = [f'sig-{q["name"]}' for q in pool]
        allsig = os.path.join(tmp, 'queries.gs')
        dump_signatures(allsig, AnnotatedSignatures(SignatureArray([W.real_signature(w['kspec'], q['contigs']) for q in pool], ks), sig_ids, SignaturesMeta()))
        n = len(pool) - 4
        collide = [[n, n + 1], [n + 1, n], [n + 2, n + 3], [n + 1, 1, n]]
        batches = [[i] for i in range(n)]
        batches += [list(p) for p in itertools.permutations(range(n), 2) if (p[0] + p[1]) % (1 if ctx.tier == 'thorough' else 3) == 0]
        batches += [list(p) for p in itertools.permutations(range(n), 3) if ctx.tier == 'thorough' or sum(p) % 11 == 0]
        batches += [list(range(n)), list(range(n))[::-1], [0, 6, 0, 6], [2, 2]]
        batches += collide + collide      # twice: they land on different channels / formats
        long_batch = [(3 * j + 1) % n for j in range(19)]
        batches += [long_batch, long_batch[::-1], long_batch, long_batch]       # many more inputs than cores (-c 1 / 2 among them)
        jobs, metas = [], []
        for bi, batch in enumerate(batches):
            channel = ['positional', 'list', 'sigfile', 'positional'][bi % 4]
            fmt = ['csv', 'json', 'archive', 'csv'][(bi // 4) % 4]
            cores = [1, 2, 5, 16][bi % 4 if bi % 3 else (bi // 3) % 4]
            if len(batch) >= 19:
                channel, cores = ['positional', 'list'][bi % 2], [1, 1, 2, 1][bi % 4]
            progress = bi % 2 == 0
            out = os.path.join(tmp, f'out{bi}')
            to_stdout = bi % 5 == 3                      # no -o: the results are written to standard output
            args = ['-d', dbdir, 'query', '-f', fmt] + ([] if to_stdout else ['-o', out]) + ([] if bi % 7 == 5 else ['-c', str(cores)]) \
                + (['--progress'] if progress else ['--no-progress'])
            if channel == 'positional':
                args += [files[i][1] for i in batch]
                labels = [dict(kind='path', v=cps(files[i][1])) for i in batch]
            elif channel == 'list' and any('\n' in files[i][0] or '\r' in files[i][0] for i in batch):
                args += [files[i][1] for i in batch]            # a list file cannot express a name with a line break: given positionally
                labels = [dict(kind='path', v=cps(files[i][1])) for i in batch]
                channel = 'positional'
            elif channel == 'list':
                lf = os.path.join(tmp, f'list{bi}.txt')
                cli.write_listfile(lf, [files[i][0] for i in batch], bi)          # every rendering of ListFile!Styles in turn
                args += ['-l', lf, '--ldir', qdir]
                labels = [dict(kind='path', v=cps(files[i][0])) for i in batch]
            elif bi % 8 == 6:
                # the signature file is produced by the command line itself (`signatures create --db-params`): ids = file labels
                sf = os.path.join(tmp, f'b{bi}.gs')
                with_ids = bi % 16 == 14
                extra_args = []
                if with_ids:
                    # ids given in a file (one per line, rendered like a list file), inputs through a list file as well
                    custom = [f'custom id {j}, "ü" #{bi}' for j in range(len(batch))]
                    idf = cli.write_listfile(os.path.join(tmp, f'ids{bi}.txt'), custom, dict(eol=['lf', 'crlf'][(bi // 16) % 2], final=(bi // 32) % 2 == 0, blanks=False, pad=(bi // 16) % 3 == 1))   # (blank lines would count as ids)
                    extra_args = ['-i', idf]
                rc0, _, se0 = cli.run_cli(['-d', dbdir, 'signatures', 'create', '--db-params', '--no-progress', '-o', sf] + extra_args + [files[i][1] for i in batch], cwd=tmp)
                if rc0 != 0:
                    raise tlc.MachineryError(f'signatures create failed while preparing a batch: {se0[-300:]}')
                args += ['-s', sf]
                labels = [dict(kind='id', v=cps(c)) for c in custom] if with_ids else [dict(kind='path', v=cps(files[i][1])) for i in batch]
                channel = 'sigfile-from-cli'
            else:
                sf = os.path.join(tmp, f'b{bi}.gs')
                dump_signatures(sf, AnnotatedSignatures(SignatureArray([W.real_signature(w['kspec'], pool[i]['contigs']) for i in batch], ks), [sig_ids[i] for i in batch], SignaturesMeta()))
                args += ['-s', sf]
                labels = [dict(kind='id', v=cps(sig_ids[i])) for i in batch]
            jobs.append((args, dict(cwd=tmp)))
            metas.append(dict(batch=batch, channel=channel, fmt=fmt, cores=cores, progress=progress, out=out, labels=labels, to_stdout=to_stdout))
        results = cli.run_many(jobs)
        recs = []
        for m, (rc, so, se) in zip(metas, results):
            rec = dict(how='cli', channel=m['channel'], fmt=m['fmt'], cores=m['cores'], progress=m['progress'], rc=rc, stderr=se[-200:] if rc else '',
                       db=dbt, N=10, batch=[dict(label=l, contigs=[blist(c.encode()) for c in pool[i]['contigs']]) for l, i in zip(m['labels'], m['batch'])], rows=[])
            if rc == 0 and (m['to_stdout'] or os.path.exists(m['out'])):
                text = so if m['to_stdout'] else open(m['out'], newline='', encoding='utf-8').read()
                try:
                    rec['rows'] = rows_from_csv(text) if m['fmt'] == 'csv' else rows_from_json(text) if m['fmt'] == 'json' else rows_from_archive(text, w)
                except Exception as e:
                    rec['rc'] = -1
                    rec['stderr'] = f'unparseable output: {type(e).__name__}: {e}'[:150]
            recs.append(rec)
            metas[len(recs) - 1]['ids'] = m['batch']
        # library level: query_parse with reference chunk sizes, worker modes and progress
        db = ReferenceDatabase.load_from_dir(dbdir)
        api_batches = [list(range(n)), [5, 3, 1], [6, 0]] if ctx.tier == 'quick' else batches[n:n + 12] + [list(range(n))]
        for batch in api_batches:
            for chunk, conc, prog in [(1, None, None), (2, 'threads', True), (3, 'processes', None), (None, 'threads', None), (1000, None, True)]:
                sfs = [SequenceFile(files[i][1], 'fasta', 'auto') for i in batch]
                labels = [f'L{j}:{pool[i]["name"]}' for j, i in enumerate(batch)]
                rec = dict(how='api', channel=f'query_parse/{conc}', fmt='csv', cores=0, progress=bool(prog), rc=0, stderr='', db=dbt, N=10,
                           batch=[dict(label=dict(kind='id', v=cps(l)), contigs=[blist(c.encode()) for c in pool[i]['contigs']]) for l, i in zip(labels, batch)], rows=[])
                try:
                    res = query_parse(db, sfs, QueryParams(chunksize=chunk), file_labels=labels, parse_kw=dict(concurrency=conc, max_workers=2 if conc else None),
                                      progress=('click' if prog else None))
                    s = io.StringIO(); CSVResultsExporter().export(s, res)
                    rec['rows'] = rows_from_csv(s.getvalue())
                except Exception as e:
                    rec['rc'] = 1
                    rec['stderr'] = f'{type(e).__name__}: {e}'[:150]
                recs.append(rec)
                metas.append(dict(batch=batch, channel=rec['channel'], fmt='csv', cores=0, progress=bool(prog), chunk=chunk))
        db.signatures.close(); db.session.close()
        n_j, bad = tlc.judge('Judge_C08', recs)
        for i, why in bad:
            m, r = metas[i], recs[i]
            ctx.report('query-batches', {k: v for k, v in m.items() if k not in ('labels', 'out')}, dict(rc=r['rc'], stderr=r['stderr'], rows=r['rows'][:2]), why,
                       key=f'query:{m["channel"]}:{m["fmt"]}:{why[0] if why else ""}', describe=f'batch={m["batch"]} {m["channel"]} fmt={m["fmt"]} cores={m["cores"]} rc={r["rc"]} {r["stderr"][-120:]!r}')
        ctx.traces += n_j
        ctx.evaluations += n_j
        for m in metas:
            if len(m['batch']) >= 2:
                ctx.nontrivial_keys.add(('batch', core.short_hash({k: v for k, v in m.items() if k not in ('labels', 'out')})))
        ctx.families.append(dict(name='query-batches', records=n_j, rejected=len(bad), judge='Judge_C08', cli_runs=len(jobs)))
        ctx.add_samples([dict(family='query-batches', meta={k: v for k, v in metas[9].items() if k not in ('labels', 'out')}, rows=recs[9]['rows'][:1])], limit=1)
        ctx.rule_parts.append('[query-batches] a synthetic database (9 genomes, signature file order != genome order, identical reference genomes, '
                              'threshold-less and unreportable taxa, names with commas/quotes/newlines) and 7 query genomes (one under two names): every '
                              'single genome, ordered pairs and triples, the full batch in both orders, a 19-input batch (more inputs than 16 x cores for -c 1), repeated inputs, different genomes with colliding labels x channel {positional, list file + base dir, signature file written by `gambit signatures create`, list file + '
                              'base dir, pre-computed signature file} x gzip (single- and multi-member) / FASTA extensions x -c {1,2,5,16} x progress on/off x format {csv, json, '
                              'archive} through the real command line, plus query_parse with chunk sizes {1,2,3,None,1000} and thread/process pools; '
                              'every row is recomputed by TLC from the sequences of that genome alone; non-trivial = batch of >= 2')
        ctx.exhaustive_all = False
        import copy
        g = copy.deepcopy(next(r for r in recs if r['rc'] == 0 and len(r['rows']) >= 2 and r['fmt'] == 'csv'))
        c1 = copy.deepcopy(g); c1['rows'][0], c1['rows'][1] = c1['rows'][1], c1['rows'][0]
        c2 = copy.deepcopy(g); c2['rows'] = c2['rows'][:-1]
        c3 = copy.deepcopy(g); c3['rows'][0]['closest_d'] += 1
        _, b2 = tlc.judge('Judge_C08', [c1, c2, c3], shards=1)
        ctx.selftests.append(dict(family='query-batches', corrupted=3, rejected=len({i for i, _ in b2})))
        if len({i for i, _ in b2}) != 3:
            raise tlc.MachineryError('self-test: Judge_C08 accepted swapped rows / a missing row / a wrong distance')
    finally:
        shutil.rmtree(tmp, ignore_errors=True)
    ctx.assumptions += ['labels with a duplicated file id in one batch are allowed (the command only warns)',
                        'thresholds are float32-exact so that float32/double comparison semantics cannot differ']


replay = core.RERUN
