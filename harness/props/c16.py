"""C16 - the distance-matrix command labels and fills every cell correctly."""
import os
import random
import shutil

import numpy as np

from gambit.kmers import KmerSpec
from gambit.sigs import SignatureArray, AnnotatedSignatures, SignaturesMeta, dump_signatures
from .. import core, tlc, cli
from ..enc import blist
from .. import world as W
from .c14 import make_genome

K1 = (5, 'AT')
DEF = (11, 'ATGAC')
K20 = (20, 'AT')


def cps(s):
    return [ord(c) for c in str(s)]


def setup(tmp, seed):
    rng = random.Random(seed)
    base = make_genome(rng)[:120]
    mk = lambda b=None: [(make_genome(rng, b) if b else make_genome(rng))[:rng.randint(70, 120)]]
    qs = [mk(base), mk(base) + mk(), ['GGGGCCCCGGGG']]              # the last query has an empty signature under every parameter set
    rs = [[base], mk(base), ['CCCCGGGG', 'GGGG'], mk(base), [base]]  # two identical references, one with an empty signature
    # contigs that are EXACTLY one prefix + k-mer long (16 nt for 11/ATGAC, 7 / 8 nt for 5|6/AT), on either strand: one start position each
    qs[1] += ['ATGACCGGCGCCGGCC', 'ATCCGCG', 'CGCGGAT', 'ATGCCGCG']
    rs[3] += ['ATCCGCG', 'GGCCGGCGCCGGTCAT']
    qnames = ['query0.fasta', 'sub dir/query,1.fa.gz', 'q.2.fna']
    rnames = ['ref0.fa', 'r/ref1.fasta.gz', 'ref2.gz', 'ref3.txt', 'other/ref0.fa.fasta']      # incl. a gzip extension with no FASTA extension before it
    env = dict(q=qs, r=rs, qnames=qnames, rnames=rnames)
    for qi_, (nm, c) in enumerate(zip(qnames, qs)):
        W.write_fasta(os.path.join(tmp, 'qdir', nm), c, gz=nm.endswith('.gz'), mixed=(qi_ == 1), members=2, width=[60, 13][qi_ % 2], final_eol=bool(qi_ % 2))       # one query soft-masked (mixed case)
    for nm, c in zip(rnames, rs):
        W.write_fasta(os.path.join(tmp, 'rdir', nm), c, gz=nm.endswith('.gz'), eol='\r\n', lower=True, members=3)
    # references that carry the SAME file names (hence labels) as the queries but different contents
    for nm, c in zip(qnames, rs[:3]):
        W.write_fasta(os.path.join(tmp, 'rsame', nm), c, gz=nm.endswith('.gz'))
    # the first query and the second reference are reached through symbolic links with other base names: labels come from the names given
    for d_, nm in (('qdir', qnames[0]), ('rdir', rnames[1])):
        link = os.path.join(tmp, d_, nm)
        target = os.path.join(tmp, 'store', d_ + '_blob_0001.fasta' + ('.gz' if nm.endswith('.gz') else ''))
        os.makedirs(os.path.dirname(target), exist_ok=True)
        os.replace(link, target)
        os.symlink(target, link)
    # list files in two renderings of ListFile!Styles: CRLF without final terminator / LF with blank lines and padding
    cli.write_listfile(os.path.join(tmp, 'ql.txt'), qnames, dict(eol='crlf', final=False, blanks=False, pad=False))
    cli.write_listfile(os.path.join(tmp, 'rl.txt'), rnames, dict(eol='lf', final=(seed % 2 == 0), blanks=True, pad=True))
    ks = KmerSpec(*K1)
    env['qids'] = ['qs_a', 'qs,"b"', 7] if False else ['qs_a', 'qs,"b"', 'qs c']
    env['rids'] = [10, 11, 12, 13, 14]
    dump_signatures(os.path.join(tmp, 'q.gs'), AnnotatedSignatures(SignatureArray([W.real_signature(K1, c) for c in qs], ks), env['qids'], SignaturesMeta(id_attr='key')))

    dump_signatures(os.path.join(tmp, 'r.gs'), AnnotatedSignatures(SignatureArray([W.real_signature(K1, c) for c in rs], ks), np.array(env['rids']), SignaturesMeta(id_attr='ncbi_id')))
    # signature files computed with k = 20 (64-bit k-mer indices): the command must use them as they are, whatever its own default k
    ks20 = KmerSpec(*K20)
    dump_signatures(os.path.join(tmp, 'q20.gs'), AnnotatedSignatures(SignatureArray([W.real_signature(K20, c) for c in qs], ks20), env['qids'], SignaturesMeta(id_attr='key')))
    dump_signatures(os.path.join(tmp, 'r20.gs'), AnnotatedSignatures(SignatureArray([W.real_signature(K20, c) for c in rs], ks20), np.array(env['rids']), SignaturesMeta(id_attr='ncbi_id')))
    taxa = [dict(name='T', rank='species', parent=0, thr=0.5, report=True, ncbi_id=1)]
    world = dict(kspec=list(K1), taxa=taxa, key='db', version='1',
                 genomes=[dict(key=f'dbg{i}', desc=f'ref {i}', taxon=1, contigs=c, genbank_acc=None, refseq_acc=None, ncbi_id=None) for i, c in enumerate(rs[:3])])
    extra = [dict(id='zz_unrelated', contigs=rs[3], pos=1)]
    W.build_db(os.path.join(tmp, 'db'), world, sig_order=[2, 0, 1], extra_sigs=extra)
    env['dbids'] = ['dbg2', 'zz_unrelated', 'dbg0', 'dbg1']
    env['dbseqs'] = [rs[2], rs[3], rs[0], rs[1]]
    return env


def scenarios(env, tmp, tier):
    qd, rd = os.path.join(tmp, 'qdir'), os.path.join(tmp, 'rdir')
    qways = {
        'files': (sum([['-q', os.path.join(qd, n)] for n in env['qnames']], []), [('path', os.path.join(qd, n)) for n in env['qnames']], env['q'], False),
        'list': (['--ql', os.path.join(tmp, 'ql.txt'), '--qdir', qd], [('path', n) for n in env['qnames']], env['q'], False),
        'sigs': (['--qs', os.path.join(tmp, 'q.gs')], [('id', i) for i in env['qids']], env['q'], True),
    }
    rways = {
        'files': (sum([['-r', os.path.join(rd, n)] for n in env['rnames']], []), [('path', os.path.join(rd, n)) for n in env['rnames']], env['r'], False, []),
        'list': (['--rl', os.path.join(tmp, 'rl.txt'), '--rdir', rd], [('path', n) for n in env['rnames']], env['r'], False, []),
        'sigs': (['--rs', os.path.join(tmp, 'r.gs')], [('id', i) for i in env['rids']], env['r'], True, []),
        'db': (['--use-db'], [('id', i) for i in env['dbids']], env['dbseqs'], True, ['-d', os.path.join(tmp, 'db')]),
        'square': (['--square'], None, None, False, []),
        'files-same-names': (sum([['-r', os.path.join(tmp, 'rsame', n)] for n in env['qnames']], []),
                             [('path', os.path.join(tmp, 'rsame', n)) for n in env['qnames']], env['r'][:3], False, []),
        'list-same-names': (['--rl', os.path.join(tmp, 'ql.txt'), '--rdir', os.path.join(tmp, 'rsame')], [('path', n) for n in env['qnames']], env['r'][:3], False, []),
    }
    for qn, (qa, ql, qsq, qfixed) in qways.items():
        for rn, (ra, rl, rsq, rfixed, pre) in rways.items():
            for explicit in (True, False):
                fixed = qfixed or rfixed
                if not explicit and not fixed:
                    params = DEF
                else:
                    params = K1
                kargs = ['-k', str(K1[0]), '-p', K1[1]] if explicit else []
                for cores in ((1, 4) if tier == 'thorough' or (qn, rn) in (('files', 'files'), ('sigs', 'db')) else (1,)):
                    sq = rn == 'square'
                    yield dict(q=qn, r=rn, explicit=explicit, cores=cores, params=params,
                               args=pre + ['dist', '--no-progress'] + kargs + qa + ra + ['-c', str(cores)],
                               qlab=ql, rlab=ql if sq else rl, qseqs=qsq, rseqs=qsq if sq else rsq, square=sq,
                               both=(pre + ['dist', '--no-progress'] + kargs + qa + [a.replace('--q', '--r') if a.startswith('--q') else ('-r' if a == '-q' else a) for a in qa]) if sq else None)


def wide_scenarios(env, tmp):
    """signature files with 64-bit indices on either or both sides"""
    qd, rd = os.path.join(tmp, 'qdir'), os.path.join(tmp, 'rdir')
    q20 = (['--qs', os.path.join(tmp, 'q20.gs')], [('id', i) for i in env['qids']], env['q'])
    r20 = (['--rs', os.path.join(tmp, 'r20.gs')], [('id', i) for i in env['rids']], env['r'])
    qf = (sum([['-q', os.path.join(qd, n)] for n in env['qnames']], []), [('path', os.path.join(qd, n)) for n in env['qnames']], env['q'])
    rf = (sum([['-r', os.path.join(rd, n)] for n in env['rnames']], []), [('path', os.path.join(rd, n)) for n in env['rnames']], env['r'])
    for name, (qa, ql, qsq), (ra, rl, rsq), sq in (('sigs20/sigs20', q20, r20, False), ('sigs20/files', q20, rf, False), ('files/sigs20', qf, r20, False),
                                                   ('sigs20/square', q20, (['--square'], None, None), True)):
        for cores in (1, 3):
            yield dict(q=name.split('/')[0], r=name.split('/')[1], explicit=False, cores=cores, params=K20,
                       args=['dist', '--no-progress'] + qa + ra + ['-c', str(cores)], qlab=ql, rlab=ql if sq else rl, qseqs=qsq, rseqs=qsq if sq else rsq,
                       square=sq, both=(['dist', '--no-progress'] + qa + ['--rs', os.path.join(tmp, 'q20.gs')]) if sq else None)


def run_set(ctx, tmp, seed):
    if True:
        env = setup(tmp, seed)
        scs = list(scenarios(env, tmp, ctx.tier)) + list(wide_scenarios(env, tmp))
        jobs = []
        for i, sc in enumerate(scs):
            jobs.append((sc['args'] + ['-o', os.path.join(tmp, f'o{i}.csv')], dict(cwd=tmp)))
            if sc['both']:
                jobs.append((sc['both'] + ['-o', os.path.join(tmp, f'o{i}b.csv')], dict(cwd=tmp)))
        results = cli.run_many(jobs)
        recs, ri = [], 0
        for i, sc in enumerate(scs):
            rc, so, se = results[ri]; ri += 1
            path = os.path.join(tmp, f'o{i}.csv')
            text = open(path, newline='', encoding='utf-8').read() if os.path.exists(path) else ''
            text2 = ''
            if sc['both']:
                rc2, _, se2 = results[ri]; ri += 1
                p2 = os.path.join(tmp, f'o{i}b.csv')
                text2 = open(p2, newline='', encoding='utf-8').read() if os.path.exists(p2) else f'<failed rc={rc2} {se2[-80:]}>'
            recs.append(dict(way=f'{sc["q"]}/{sc["r"]}', explicit=sc['explicit'], cores=sc['cores'], k=sc['params'][0], pre=blist(sc['params'][1].encode()),
                             rc=rc, stderr=se[-200:], square=sc['square'], text=cps(text), text_both_sides=cps(text2),
                             q=[dict(label=dict(kind=k, v=cps(v)), contigs=[blist(c.encode()) for c in g]) for (k, v), g in zip(sc['qlab'], sc['qseqs'])],
                             r=[dict(label=dict(kind=k, v=cps(v)), contigs=[blist(c.encode()) for c in g]) for (k, v), g in zip(sc['rlab'], sc['rseqs'])]))
        return recs


def run(ctx):
    ctx.mc('MC_Csv', 'MC_Csv.cfg', coverage=False, workers=1, note='CSV reader/writer round trip over all 2-field rows with fields <= 2 chars over {x , " LF CR space e-acute}, both dialects (ASSUMEs)')
    ctx.mc('BulkDist', 'MC_BulkDist.cfg', overrides=dict(MaxQ=2, MaxR=3, MaxSel=3, MaxChunk=3), workers=8,
           note='the matrix / pairwise loops behind the command (shared with C05)')
    ctx.mc('MC_Cli', 'MC_Cli.cfg', workers=8, note='parameter selection of the command (shared with C14)')
    tmp = tlc.mktmp('c16-')
    try:
        recs = []
        for rep in range(1 if ctx.tier == 'quick' else 4):
            sub = os.path.join(tmp, f'set{rep}')
            os.makedirs(sub)
            recs += run_set(ctx, sub, ctx.seed + 101 * rep)
        n, bad = tlc.judge('Judge_C16', recs)
        for i, why in bad:
            r = recs[i]
            ctx.report('dist-csv', dict(way=r['way'], explicit=r['explicit'], cores=r['cores']), dict(rc=r['rc'], stderr=r['stderr'], text=bytes(r['text']).decode('utf-8', 'replace') if max(r['text'], default=0) < 256 else ''.join(map(chr, r['text']))),
                       why, key=f'dist:{r["way"]}:{why[0] if why else ""}', describe=f'{r["way"]} explicit={r["explicit"]} cores={r["cores"]} rc={r["rc"]} {r["stderr"][-100:]!r}')
        ctx.traces += n
        ctx.evaluations += n
        for r in recs:
            ctx.nontrivial_keys.add(('dist', core.short_hash([r['way'], r['explicit'], r['cores']])))
        ctx.families.append(dict(name='dist-csv', records=n, rejected=len(bad), judge='Judge_C16'))
        ctx.add_samples([dict(family='dist-csv', way=recs[0]['way'], text=''.join(map(chr, recs[0]['text'])))], limit=1)
        ctx.rule_parts.append('[dist-csv] all 3 x 5 ways (plus references that share the file names of the queries but not their contents) of supplying queries (files, list file + base dir, signature file) and references (files, '
                              'list + dir, signature file with integer ids, database with an unrelated extra signature, --square) x -k/-p given or '
                              'defaulted x cores; file names with directories, spaces, commas, gzip and several FASTA extensions, ids with quotes; '
                              'the raw CSV text is parsed by TLC (RFC 4180), labels derived by the spec from the paths, every cell recomputed from '
                              'the sequences; --square compared with the same genomes on both sides')
        ctx.exhaustive_all = True
        import copy
        g = copy.deepcopy(next(r for r in recs if r['rc'] == 0 and not r['square']))
        c1 = copy.deepcopy(g); c1['q'][0], c1['q'][1] = c1['q'][1], c1['q'][0]
        c2 = copy.deepcopy(g); t = ''.join(map(chr, c2['text'])); c2['text'] = cps(t.replace('0.', '1.', 1) if '0.' in t else t + 'x')
        _, b2 = tlc.judge('Judge_C16', [c1, c2], shards=1)
        ctx.selftests.append(dict(family='dist-csv', corrupted=2, rejected=len({i for i, _ in b2})))
        if len({i for i, _ in b2}) != 2:
            raise tlc.MachineryError('self-test: Judge_C16 accepted swapped query rows / an altered cell')
    finally:
        shutil.rmtree(tmp, ignore_errors=True)
    ctx.assumptions += ['a cell within 1/80 of a ten-thousandth of an exact rounding tie may be either neighbour (the float32 value decides); '
                        'all other cells must be the correctly rounded exact distance']


replay = core.RERUN
