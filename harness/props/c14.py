"""C14 - signatures built with different k-mer parameters are never compared silently."""
import csv
import io
import os
import random
import shutil

import numpy as np

from gambit.kmers import KmerSpec
from gambit.sigs import SignatureArray, AnnotatedSignatures, SignaturesMeta, dump_signatures
from .. import core, tlc, cli
from ..enc import blist
from .. import world as W

PARAMS = {'DEF': (11, 'ATGAC'), 'K1': (5, 'AT'), 'K2': (6, 'AT'), 'K3': (5, 'AC'), 'K4': (5, 'GT'),     # K4's prefix = revcomp(K3's)
          'K5': (11, 'ATGACATGAC'), 'K6': (11, 'ATGACATG'), 'K7': (32, 'AT')}           # K7 / K1: k at either end of the legal range       # long prefixes: K6's is the first 8 nt of K5's, DEF's the first 5 of both
MAIN_SET = ['DEF', 'K1', 'K2', 'K3', 'K4']
LONG_SET = ['DEF', 'K5', 'K6']
EDGE_SET = ['DEF', 'K7']


def make_genome(rng, base=None):
    """a short genome with occurrences of every prefix in play (ATGAC, AT, AC) on both strands"""
    blocks = []
    for _ in range(5):
        blocks.append('ATGAC' + W.rand_seq(rng, 11) + W.rand_seq(rng, 3))
        blocks.append('AC' + W.rand_seq(rng, 7))
        blocks.append('GT' + W.rand_seq(rng, 6))
        blocks.append('GTCAT'[::1] + W.rand_seq(rng, 4))
        blocks.append('ATGACATGAC' + W.rand_seq(rng, 12))
        blocks.append('ATGACATGCA' + W.rand_seq(rng, 11))
    s = ''.join(blocks)
    return W.mutate(rng, base, 0.04) if base else s


def setup(tmp, seed, names):
    rng = random.Random(seed)
    base = make_genome(rng)
    qs = [[make_genome(rng, base)], [make_genome(rng, base)[:150], make_genome(rng)[:90]]]
    rs = [[base], [make_genome(rng, base)], [make_genome(rng)]]
    env = dict(q=qs, r=rs, qfiles=[], rfiles=[], qsig={}, rsig={}, db={}, qsig_empty={}, rsig_empty={}, rsig_twin={})
    for i, c in enumerate(qs):
        env['qfiles'].append(W.write_fasta(os.path.join(tmp, 'q', f'query{i}.fasta'), c))
    for i, c in enumerate(rs):
        env['rfiles'].append(W.write_fasta(os.path.join(tmp, 'r', f'ref{i}.fa' + ('.gz' if i == 1 else '')), c, gz=(i == 1), members=2))
    for name in names:
        k, p = PARAMS[name]
        ks = KmerSpec(k, p)
        for side, seqs in (('q', qs), ('r', rs)):
            sigs = SignatureArray([W.real_signature([k, p], c) for c in seqs], ks)
            path = os.path.join(tmp, f'{side}_{name}.gs')
            dump_signatures(path, AnnotatedSignatures(sigs, [f'{side}{i}' for i in range(len(seqs))], SignaturesMeta(id_attr='key')))
            env[side + 'sig'][name] = path
            # the same parameter set with NO signatures in the file: a mismatch must be refused all the same
            from gambit.sigs import SignatureList
            epath = os.path.join(tmp, f'{side}_{name}_empty.gs')
            dump_signatures(epath, SignatureList([], ks))
            env[side + 'sig_empty'][name] = epath
        # a reference file that the FILE SYSTEM cannot tell from the query file of another parameter set: same number and lengths of
        # signatures, same id lengths, same integer type, hence the same size in bytes - and (below) the same modification time
        for other in names:
            ko, po = PARAMS[other]
            if other != name and len(po) == len(p) and KmerSpec(ko, po).index_dtype == ks.index_dtype:
                shape = [len(W.real_signature([ko, po], c)) for c in qs]
                twin = SignatureArray([np.arange(7, 7 + n_, dtype=ks.index_dtype) for n_ in shape], ks)
                tpath = os.path.join(tmp, f'rtwin_{other}_{name}.gs')
                dump_signatures(tpath, AnnotatedSignatures(twin, [f'r{i}' for i in range(len(qs))], SignaturesMeta(id_attr='key')))
                env['rsig_twin'][other, name] = tpath
        taxa = [dict(name='T', rank='species', parent=0, thr=0.5, report=True, ncbi_id=1)]
        world = dict(kspec=[k, p], taxa=taxa, key='db' + name, version='1',
                     genomes=[dict(key=f'r{i}', desc=f'ref {i}', taxon=1, contigs=c, genbank_acc=None, refseq_acc=None, ncbi_id=None) for i, c in enumerate(rs)])
        d = os.path.join(tmp, 'db_' + name)
        W.build_db(d, world)
        env['db'][name] = d
    # every signature file carries the same modification time (an unpacked archive, a copied directory)
    env['twins_same_size'] = 0
    for (qn, rn), tpath in list(env['rsig_twin'].items()):
        if os.path.getsize(tpath) == os.path.getsize(env['qsig'][qn]):
            env['twins_same_size'] += 1
        else:
            del env['rsig_twin'][qn, rn]
    for fn in os.listdir(tmp):
        if fn.endswith('.gs'):
            os.utime(os.path.join(tmp, fn), (1_600_000_000, 1_600_000_000))
    return env


def command(env, row, out, idx):
    args = []
    e, q, r = row['explicit'], row['q'], row['r']
    if row['cmd'] == 'dist':
        if r['kind'] == 'db':
            args += ['-d', env['db'][r['ks']]]
        args += ['dist', '-o', out, '--no-progress']
        if e == 'partial':
            args += (['-k', '5'] if idx % 2 else ['-p', 'AT'])
        elif e == 'invalid':
            # both options given, k outside 5..32 (just outside and far outside), prefix of the other parameter sets in play
            args += [['-k', '4', '-p', 'AT'], ['-k', '33', '-p', 'AT'], ['-k', '40', '-p', 'AT'], ['-k', '0', '-p', 'ATGAC'], ['-k', '-3', '-p', 'AT']][idx % 5]
        elif e != 'none':
            k, p = PARAMS[e]
            args += ['-k', str(k), '-p', p if idx % 3 else p.lower()]
        refuse = not row['expect']['ok']           # rows that must be refused are also run with an EMPTY signature file on one side
        if q['kind'] == 'sigs':
            args += ['--qs', env['qsig_empty' if refuse and idx % 4 == 1 else 'qsig'][q['ks']]]
        else:
            for f in env['qfiles']:
                args += ['-q', f]
        if r['kind'] == 'sigs':
            twin = env['rsig_twin'].get((q.get('ks'), r['ks'])) if q['kind'] == 'sigs' and refuse and idx % 4 in (0, 2) else None
            args += ['--rs', twin or env['rsig_empty' if refuse and idx % 4 == 3 else 'rsig'][r['ks']]]
        elif r['kind'] == 'db':
            args += ['--use-db']
        elif r['kind'] == 'square':
            args += ['--square']
        else:
            for f in env['rfiles']:
                args += ['-r', f]
    else:
        args += ['-d', env['db'][r['ks']], 'query', '-o', out, '--no-progress']
        if q['kind'] == 'sigs':
            args += ['-s', env['qsig'][q['ks']]]
        else:
            args += list(env['qfiles'])
    return args


def parse_dist_csv(text):
    rows = list(csv.reader(io.StringIO(text, newline='')))
    cells = []
    for row in rows[1:]:
        cells.append([int(round(float(v) * 10000)) if abs(float(v) * 10000 - round(float(v) * 10000)) < 1e-6 else -1 for v in row[1:]])
    return cells


def run_set(ctx, tmp, seed, names=MAIN_SET):
    if True:
        env = setup(tmp, seed, names)
        table, _ = tlc.generate('Gen_Cli', cfg='Gen_Cli.cfg', overrides=dict(Params='{' + ', '.join(f'"{n}"' for n in names) + '}'))
        table.sort(key=core.canon)
        if ctx.tier == 'quick':
            # quick: every error row involving two pinned sources, and a third of the rest
            table = [r for i, r in enumerate(table) if (not r['expect']['ok'] and r['explicit'] not in ('partial', 'invalid')) or i % 3 == 0]
        jobs, outs = [], []
        for i, row in enumerate(table):
            out = os.path.join(tmp, f'out{i}.csv')
            outs.append(out)
            jobs.append((command(env, row, out, i), dict(cwd=tmp)))
        results = cli.run_many(jobs)
        params = {n: dict(k=k, pre=blist(p.encode())) for n, (k, p) in PARAMS.items()}
        recs = []
        for row, out, (rc, so, se) in zip(table, outs, results):
            wrote = os.path.exists(out) and os.path.getsize(out) > 0
            q_side = env['q']
            r_side = q_side if row['r']['kind'] == 'square' else env['r']
            rec = dict(cmd=row['cmd'], explicit=row['explicit'], q=row['q'], r=row['r'], expect=row['expect'], rc=rc, wrote=bool(wrote),
                       stderr=se[-200:], params=params, cells=[], nrows=0,
                       qseqs=[[blist(c.encode()) for c in g] for g in q_side], rseqs=[[blist(c.encode()) for c in g] for g in r_side])
            if wrote and rc == 0:
                text = open(out, newline='').read()
                if row['cmd'] == 'dist':
                    rec['cells'] = parse_dist_csv(text)
                else:
                    rec['nrows'] = len(list(csv.reader(io.StringIO(text, newline='')))) - 1
            recs.append(rec)
        return recs


def run(ctx):
    ctx.mc('MC_Cli', 'MC_Cli.cfg', require_actions=['Dist', 'Query'], workers=8,
           note='command histories of depth 2 over dist/query with 3 parameter sets: no comparison of mismatched parameters, accounting; '
                'if-chain of dist == definition on the whole table (ASSUME)')
    ctx.mc('MC_Cli', 'MC_Cli.cfg', expect='NoSilentMismatch', overrides=dict(GuardQuerySigs='FALSE'),
           note='negative control: `query -s` without a parameter check (as found at the pinned commit) compares mismatched signatures')
    tmp = tlc.mktmp('c14-')
    try:
        recs = []
        for rep in range(1 if ctx.tier == 'quick' else 3):
            sub = os.path.join(tmp, f'set{rep}')
            os.makedirs(sub)
            recs += run_set(ctx, sub, ctx.seed + 31 * rep)
        sub = os.path.join(tmp, 'long')
        os.makedirs(sub)
        recs += run_set(ctx, sub, ctx.seed + 7, LONG_SET)          # prefixes longer than 8 nt that agree on their first 5 / 8 nucleotides
        sub = os.path.join(tmp, 'edge')
        os.makedirs(sub)
        recs += run_set(ctx, sub, ctx.seed + 9, EDGE_SET)          # a parameter set with k = 32, the largest legal value
        n, bad = tlc.judge('Judge_C14', recs)
        for i, why in bad:
            r = recs[i]
            key = f'{r["cmd"]}:q={r["q"]["kind"]}/{r["q"]["ks"]}:r={r["r"]["kind"]}/{r["r"]["ks"]}:explicit={r["explicit"]}'
            if r['cmd'] == 'query':
                key = f'query:-s:{"mismatch" if r["q"]["ks"] != "K1" else "match"}'
            ctx.report('cli-table', dict(cmd=r['cmd'], explicit=r['explicit'], q=r['q'], r=r['r']), {k: v for k, v in r.items() if k not in ('qseqs', 'rseqs', 'params')},
                       why, key=key, describe=f'expected {r["expect"]} got rc={r["rc"]} wrote={r["wrote"]} {r["stderr"][-120:]!r}')
        ctx.traces += n
        ctx.evaluations += n
        for r in recs:
            if r['q']['kind'] == 'sigs' or r['r']['kind'] in ('sigs', 'db'):
                ctx.nontrivial_keys.add(('cli', core.short_hash([r['cmd'], r['explicit'], r['q'], r['r']])))
        ctx.families.append(dict(name='cli-table', records=n, rejected=len(bad), judge='Judge_C14', generator='Gen_Cli (TLC decision table)',
                                 errors_expected=sum(1 for r in recs if not r['expect']['ok']), exit_nonzero=sum(1 for r in recs if r['rc'] != 0)))
        ctx.add_samples([dict(family='cli-table', row={k: v for k, v in recs[0].items() if k not in ('qseqs', 'rseqs', 'params')})], limit=1)
        ctx.rule_parts.append('[cli-table] the full decision table generated by TLC (explicit -k/-p none / partial / 4 parameter sets x query source '
                              '{files, signature file with 4 parameter sets} x reference source {files, signature file, database, --square} for '
                              '`dist`; query files / -s with 4 parameter sets against the database) run through the real command line: exit '
                              'status, output written or not, and on success every cell recomputed by TLC under the parameters the spec selects; '
                              'non-trivial = at least one pre-computed source')
        ctx.exhaustive_all = ctx.tier == 'thorough'
        # self-test
        ok_row = next(r for r in recs if r['expect']['ok'] and r['cmd'] == 'dist' and r['rc'] == 0)
        c1 = dict(ok_row, cells=[[c + 1 for c in row] for row in ok_row['cells']])
        err_row = next(r for r in recs if not r['expect']['ok'])
        c2 = dict(err_row, rc=0, wrote=True)
        _, b2 = tlc.judge('Judge_C14', [c1, c2], shards=1)
        ctx.selftests.append(dict(family='cli-table', corrupted=2, rejected=len({i for i, _ in b2})))
        if len({i for i, _ in b2}) != 2:
            raise tlc.MachineryError('self-test: Judge_C14 accepted shifted cells / a silent mismatch')
    finally:
        shutil.rmtree(tmp, ignore_errors=True)
    ctx.assumptions += ['`tree -s FILE -k/-p` silently ignores -k/-p (single source, nothing is compared): outside the statement, not judged',
                        'expected outcomes come from the TLC generator; on success cells are recomputed by TLC from the sequences']


replay = core.RERUN
