"""EXT - growth of the specification beyond the listed properties (not registered as a property check).

Run with `./check EXT --tier quick`.  A rejection here is reported as `EXT-DEVIATION` and recorded in evidence/EXT.json; it is
never a `VIOLATION property=...` line, because no listed property is at stake.
"""
import io
import itertools
import json
import pickle
from fractions import Fraction

import click
import numpy as np

from gambit.cli import common as clic
from gambit.cluster import dump_dmat_csv, load_dmat_csv
from gambit.db import Taxon
from gambit.kmers import KmerSpec
from gambit.metric import jaccard_generic, jaccard_bits
from gambit.sigs.calc import sparse_to_dense, dense_to_sparse
from gambit.util.misc import chunk_slices
import gambit.util.json as gjson
from .. import core, tlc
from ..taxo import World, forests


def cps(s):
    return [ord(c) for c in str(s)]


def frac(x):
    f = Fraction(float(x)).limit_denominator(10 ** 6)
    return [f.numerator, f.denominator] if float(f) == float(x) else [-1, 1]


def taxon_record(parent, taxa, gt):
    w = World(parent, [-1] * len(parent), gt=gt)
    T = w.taxa
    sel = [T[i - 1] for i in taxa]
    return dict(op='taxon', parent=parent, taxa=taxa, gt=gt,
                lca=w.t(Taxon.lca(sel)), common=[w.t(t) for t in Taxon.common_ancestors(sel)],
                lineage=[[w.t(x) for x in t.lineage()] for t in T], root=[w.t(t.root()) for t in T], depth=[t.depth() for t in T],
                isleaf=[bool(t.isleaf()) for t in T], leaves=[[w.t(x) for x in t.leaves()] for t in T],
                pre=[[w.t(x) for x in t.traverse()] for t in T], post=[[w.t(x) for x in t.traverse(postorder=True)] for t in T],
                has=[[bool(t.has_genome(g)) for g in w.genomes] for t in T])


def chunks_record(n, size):
    r = dict(op='chunks', n=n, size=size, slices=[], err='')
    try:
        r['slices'] = [[s.start, s.stop] for s in chunk_slices(n, size)]
    except Exception as e:
        r['err'] = type(e).__name__
    return r


def generic_record(a, b):
    k = 4
    da = np.zeros(4 ** k, dtype=bool); da[a] = True
    db = np.zeros(4 ** k, dtype=bool); db[b] = True
    return dict(op='generic', a=a, b=b, generic=frac(jaccard_generic(a, set(b))), bits=frac(jaccard_bits(da, db)))


def dense_record(k, coords):
    r = dict(op='dense', k=k, coords=coords, dense=[], back=[], ok=False)
    try:
        d = sparse_to_dense(k if k % 2 else KmerSpec(k, 'AT'), np.asarray(coords, dtype=int))
        r['dense'] = [bool(x) for x in d]
        r['back'] = [int(x) for x in dense_to_sparse(d)]
        r['ok'] = True
    except Exception as e:
        r['err'] = type(e).__name__
    return r


def labels_record(path):
    name = path.rsplit('/', 1)[-1]
    return dict(op='labels', path=cps(path), name=cps(name), stripped=cps(clic.strip_seq_file_ext(name)), fileid=cps(clic.get_file_id(path)))


def kmerspec_record(k, prefix):
    r = dict(op='kmerspec', k=k, prefix=list(prefix), err='', total=0, upper=[], width=0, json_roundtrip=False, pickle_roundtrip=False)
    try:
        ks = KmerSpec(k, bytes(prefix))
        r['total'] = ks.total_len
        r['upper'] = list(ks.prefix)
        r['width'] = 0 if ks.index_dtype is None else ks.index_dtype.itemsize
        r['json_roundtrip'] = gjson.loads(gjson.dumps(ks), KmerSpec) == ks
        r['pickle_roundtrip'] = pickle.loads(pickle.dumps(ks)) == ks
    except Exception as e:
        r['err'] = type(e).__name__
    return r


def dmat_record(rowids, colids, rng):
    m = np.array([[rng.randint(0, 10000) / 10000 for _ in colids] for _ in rowids], dtype=np.float32).reshape(len(rowids), len(colids))
    s = io.StringIO(newline='')
    dump_dmat_csv(s, m, rowids, colids)
    text = s.getvalue()
    vals, r2, c2 = load_dmat_csv(io.StringIO(text, newline=''))
    return dict(op='dmat', text=cps(text), rowids=[cps(x) for x in rowids], colids=[cps(x) for x in colids],
                loaded_rows=[cps(x) for x in r2], loaded_cols=[cps(x) for x in c2], shape_ok=bool(vals.shape == m.shape and np.allclose(vals, m, atol=5e-5)))


def paramgroup_record(present, exclusive, required):
    @click.command()
    @click.option('--a')
    @click.option('--b')
    @click.option('--c')
    def cmd(a, b, c):
        pass
    ctx = click.Context(cmd)
    names = ['a', 'b', 'c']
    ctx.params = {n: ('x' if p else None) for n, p in zip(names, present)}
    err = False
    try:
        clic.check_params_group(ctx, names, exclusive, required)
    except click.ClickException:
        err = True
    return dict(op='paramgroup', present=present, exclusive=exclusive, required=required, error=err)


class RecMeter:
    """a progress meter that records the protocol events"""

    def __init__(self, total, log):
        self.total, self.log = total, log
        log['total'] = total

    def increment(self, delta=1):
        self.log['events'].append(dict(e='inc', d=int(delta), n=0))

    def moveto(self, n):
        self.log['events'].append(dict(e='moveto', d=0, n=int(n)))

    def close(self):
        self.log['events'].append(dict(e='close', d=0, n=0))

    def __enter__(self):
        return self

    def __exit__(self, *a):
        self.close()


def progress_records(rng):
    import os, shutil, tempfile
    from gambit.metric import jaccarddist_matrix, jaccarddist_pairwise
    from gambit.seq import SequenceFile
    from gambit.sigs.calc import calc_file_signatures
    from gambit.util.progress import iter_progress
    from .. import world as W
    out = []

    def run(name, expected, fn):
        log = dict(total=-1, events=[])
        factory = lambda total, initial=0, **kw: RecMeter(total, log)
        returned = True
        try:
            fn(factory)
        except Exception:
            returned = False
        out.append(dict(op='progress', call=name, total=log['total'], expected_total=expected, events=log['events'], returned=returned))
    sigs = [np.array(sorted(rng.sample(range(1000), rng.randint(0, 30))), dtype='u2') for _ in range(7)]
    for chunk in (None, 1, 3, 10):
        for nq in (1, 3):
            run(f'jaccarddist_matrix chunk={chunk}', nq * 7, lambda f: jaccarddist_matrix(sigs[:nq], sigs, chunksize=chunk, progress=f))
    run('jaccarddist_matrix ref_indices', 2 * 4, lambda f: jaccarddist_matrix(sigs[:2], sigs, ref_indices=[6, 0, 0, 3], chunksize=3, progress=f))
    for flat in (False, True):
        run(f'jaccarddist_pairwise flat={flat}', 21, lambda f: jaccarddist_pairwise(sigs, flat=flat, progress=f))
    run('jaccarddist_pairwise single', 0, lambda f: jaccarddist_pairwise(sigs[:1], progress=f))
    run('iter_progress', 5, lambda f: [x for x in iter_progress(list(range(5)), f)])
    tmp = tempfile.mkdtemp(dir=tlc.TMP_ROOT)
    try:
        files = [W.write_fasta(os.path.join(tmp, f'g{i}.fa'), [W.rand_seq(rng, 300)]) for i in range(4)]
        sf = SequenceFile.from_paths(files, 'fasta', 'auto')
        ks = KmerSpec(5, 'AT')
        for conc in (None, 'threads', 'processes'):
            run(f'calc_file_signatures {conc}', 4, lambda f: calc_file_signatures(ks, sf, progress=f, concurrency=conc, max_workers=2))
        bad = sf[:2] + SequenceFile.from_paths([os.path.join(tmp, 'missing.fa')], 'fasta', 'auto') + sf[2:]
        for conc in (None, 'threads'):
            run(f'calc_file_signatures {conc} with unreadable file', 5, lambda f: calc_file_signatures(ks, bad, progress=f, concurrency=conc, max_workers=2))
    finally:
        shutil.rmtree(tmp, ignore_errors=True)
    return out


def access_records(rng):
    """jaccarddist_matrix through a logging proxy container and a recording meter: the chunk access protocol of BulkDist"""
    from gambit.metric import jaccarddist_matrix
    from gambit.sigs.base import AbstractSignatureArray, SignatureList
    from gambit.kmers import KmerSpec as KS
    out = []
    sigs = [np.array(sorted(rng.sample(range(500), rng.randint(0, 12))), dtype='u2') for _ in range(6)]

    class Proxy(AbstractSignatureArray):
        def __init__(self, inner, log):
            self.inner, self.log = inner, log
            self.kmerspec, self.dtype = inner.kmerspec, inner.dtype

        def __len__(self):
            return len(self.inner)

        def __getitem__(self, ix):
            if isinstance(ix, slice):
                ids = list(range(*ix.indices(len(self.inner))))
            elif isinstance(ix, (int, np.integer)):
                return self.inner[ix]
            else:
                ids = [int(i) for i in ix]
            self.log.append(dict(e='get', idx=ids, d=0))
            return self.inner[ix]
    for sel in (None, [5, 0, 0, 3, 2], [1], []):
        for size in (None, 1, 2, 4, 9):
            for nq in (1, 2):
                log = []

                class M(RecMeter):
                    def increment(self, delta=1):
                        log.append(dict(e='inc', idx=[], d=int(delta)))

                    def close(self):
                        pass
                inner = SignatureList(sigs, KS(8, 'ATG'))
                jaccarddist_matrix(sigs[:nq], Proxy(inner, log), ref_indices=sel, chunksize=size, progress=lambda total, initial=0, **kw: M(total, dict(events=[])))
                out.append(dict(op='access', sel=sel if sel is not None else list(range(6)), size=size or 0, nq=nq, events=log))
    return out


def accum_records(rng, tier):
    """operation histories on the two k-mer accumulators"""
    from gambit.sigs.calc import ArrayAccumulator, SetAccumulator
    from ..enc import digits4
    recs = []
    for kind, cls in (('array', ArrayAccumulator), ('set', SetAccumulator)):
        for k in (1, 2, 4, 5, 8, 9) + ((16, 17, 32) if kind == 'set' else ()):
            for rep in range(6 if tier == 'quick' else 40):
                acc = cls(k)
                top = 4 ** k - 1
                pool = sorted({0, top, rng.randint(0, top), rng.randint(0, top), top // 2})
                ops, obs = [], []
                for _ in range(rng.randint(0, 10)):
                    o = rng.choice(['add', 'add', 'discard', 'contains', 'clear', 'add_kmer', 'add_kmer'])
                    v = rng.choice(pool)
                    if o == 'add_kmer':
                        L = k if rng.random() < 0.8 else rng.choice([max(0, k - 1), k + 1])
                        kmer = bytes(rng.choice(b'ACGTacgtN') for _ in range(L))
                        op = dict(o=o, kmer=list(kmer), k=k, v=[])
                        try:
                            acc.add_kmer(kmer); res = 'ok'
                        except ValueError:
                            res = 'ValueError'
                    else:
                        op = dict(o=o, v=digits4(v, k), kmer=[], k=k)
                        if o == 'add':
                            acc.add(v); res = 'ok'
                        elif o == 'discard':
                            acc.discard(v); res = 'ok'
                        elif o == 'contains':
                            res = 'yes' if (v in acc) else 'no'
                        else:
                            acc.clear(); res = 'ok'
                    ops.append(op)
                    obs.append(dict(obs=res, n=int(len(acc))))
                sig = np.asarray(acc.signature())
                recs.append(dict(op='accum', kind=kind, k=k, ops=ops, obs=obs, members=[digits4(int(x), k) for x in acc],
                                 sig=[digits4(int(x), k) for x in sig], width=int(sig.dtype.itemsize), kindc=str(sig.dtype.kind)))
    for r in recs:
        r['kind'], r['acc'] = r.pop('kindc'), r['kind']
    return recs


class _ClosedRead(Exception):
    pass


class _FakeStream:
    def __init__(self):
        self.closed = False
        self.closes = 0

    def close(self):
        self.closed = True
        self.closes += 1


def _fake_records(stream, n, fail):
    i = 0
    while True:
        i += 1
        if stream.closed:
            raise _ClosedRead()
        if i == fail:
            raise IOError('read failed')
        if i > n:
            return
        yield i


def _drive(it, ops, item_of, closed_of):
    """apply the operations to a ClosingIterator; observations in the vocabulary of StreamDef"""
    obs = []
    for op in ops:
        if op == 'next':
            was_closed = closed_of()
            try:
                obs.append(['item', item_of(next(it))])
            except StopIteration:
                obs.append(['stop'])
            except _ClosedRead:
                obs.append(['closed-error'])
            except ValueError as e:
                obs.append(['closed-error'] if was_closed and 'closed' in str(e) else ['error'])
            except Exception:
                obs.append(['error'])
        elif op == 'close':
            it.close(); obs.append(['ok'])
        elif op == 'exit':
            it.__exit__(None, None, None); obs.append(['ok'])
        else:
            obs.append(['flag', bool(it.closed)])
    return obs


def stream_records(ctx, tmp):
    """ClosingIterator over a synthetic stream (every source n <= 3 x failing position x every operation sequence of length <= L), and
    SequenceFile.parse() over real files (plain, gzip, gzip cut inside the data / inside the trailer, undecodable byte).  For real files the
    facts about the source (number of records, position of the failing read) come from Biopython + gzip alone, without gambit."""
    import gzip as gz
    import io as _io
    import os
    from Bio import SeqIO
    from gambit.seq import SequenceFile
    from gambit.util.io import ClosingIterator
    OPS = ['next', 'close', 'exit', 'closed?']
    L = 4 if ctx.tier == 'quick' else 5
    seqs = [list(p) for l in range(0, L + 1) for p in itertools.product(OPS, repeat=l)]
    recs = []
    for n in range(0, 4):
        for fail in range(0, n + 2):
            for ops in seqs:
                st = _FakeStream()
                it = ClosingIterator(_fake_records(st, n, fail), st)
                obs = _drive(it, ops, int, lambda: st.closed)
                recs.append(dict(op='stream', kind='fake', n=n, fail=fail, after='stops', ops=ops, obs=obs, closed=st.closed))
    # real files
    body = lambda n: ''.join(f'>r{i}\n{"ACGT" * (5 + i)}\n' for i in range(1, n + 1)).encode()
    files = []
    for n in (0, 1, 3):
        data = body(n)
        blob = gz.compress(data)
        files += [(f'plain{n}.fa', data, None), (f'gz{n}.fa.gz', blob, 'gzip'), (f'cut_trailer{n}.fa.gz', blob[:-5], 'gzip'), (f'cut_data{n}.fa.gz', blob[:max(12, len(blob) * 2 // 3)], 'gzip')]
    files.append(('undecodable.fa', body(2) + b'>r3\nAC\xff\xfeGT\n', None))
    big = ''.join(f'>r{i}\n{"ACGT" * 700}\n' for i in range(1, 12)).encode()           # larger than the text layer's chunk: the failure comes after some records
    bblob = gz.compress(big)
    files += [('big_cut.fa.gz', bblob[:len(bblob) - 30], 'gzip'), ('big_undecodable.fa', big + b'>r12\nAC\xff\n' + big[:100], None)]
    for name, blob, comp in files:
        path = os.path.join(tmp, name)
        with open(path, 'wb') as f:
            f.write(blob)
        # reference facts from the libraries alone
        fh = _io.TextIOWrapper(gz.GzipFile(path, 'rb')) if comp == 'gzip' else open(path, 'rt')
        n_ok, fail, eager = 0, 0, False
        try:
            try:
                parser = SeqIO.parse(fh, 'fasta')
            except Exception:
                eager = True                  # this Biopython reads ahead when the parser is created: the failure comes at creation
                raise
            for rec in parser:
                n_ok += 1
        except Exception:
            fail = n_ok + 1
        finally:
            fh.close()
        if eager:
            # creation must fail in gambit too, and must not leave the file open
            fds = lambda: sum(1 for d in os.listdir('/proc/self/fd') if os.path.realpath(f'/proc/self/fd/{d}') == os.path.realpath(path))
            before = fds()
            try:
                SequenceFile(path, 'fasta', comp).parse()
                raised = False
            except Exception:
                raised = True
            recs.append(dict(op='stream', kind=name + ':creation-fails', n=0, fail=1, after='unspecified', ops=['next', 'exit'], obs=[['error'] if raised else ['stop'], ['ok']],
                             closed=fds() == before))
            continue
        for ops in seqs if n_ok <= 3 else [s for s in seqs if len(s) <= 2] + [['next'] * (n_ok + 2) + ['closed?'], ['next'] * n_ok + ['exit', 'next', 'closed?']]:
            it = SequenceFile(path, 'fasta', comp).parse()
            obs = _drive(it, ops, lambda r: int(r.id[1:]), lambda: it.closed)
            recs.append(dict(op='stream', kind=name, n=n_ok, fail=fail, after='unspecified', ops=ops, obs=obs, closed=bool(it.fobj.closed)))
            it.close()
    return recs


def run(ctx):
    ctx.mc('StreamLife', 'MC_StreamLife.cfg', workers=4, note='stream lifecycle: records in order, nothing after close, consumer returns iff the whole file was read, no leak on either path')
    ctx.mc('StreamLife', 'MC_StreamLife.cfg', expect='ConsumerOutcome', overrides=dict(Faithful='FALSE'), note='negative control: a failing read swallowed as end of stream')
    ctx.mc('Progress', 'MC_Progress.cfg', workers=4, note='progress-meter protocol: bounded, monotone, nothing after close, complete on return')
    ctx.mc('SigList', 'MC_SigList.cfg', workers=8, count=True, note='(a state-machine run so that the evidence carries states/transitions)')
    rng = ctx.rng
    recs = []
    nmax = 4 if ctx.tier == 'quick' else 5
    for n in range(1, nmax + 1):
        for p in forests(n):
            for k in range(0, min(3, n) + 1):
                for taxa in itertools.combinations(range(1, n + 1), k):
                    recs.append(taxon_record(p, list(taxa), [1 + (i % n) for i in range(3)]))
    for n in range(0, 12):
        for size in range(-1, 14):
            recs.append(chunks_record(n, size))
    U = list(range(6))
    for ma in range(64):
        for mb in range(0, 64, 3):
            recs.append(generic_record([x * 37 for x in U if (ma >> x) & 1], [x * 37 for x in U if (mb >> x) & 1]))
    for k in (1, 2, 3, 4):
        for _ in range(10):
            recs.append(dense_record(k, sorted(rng.sample(range(4 ** k), rng.randint(0, min(6, 4 ** k))))))
    for path in ['a.fasta', 'dir/b.fa.gz', 'c.fna', 'd.ffn.gz', 'e.faa', 'f.frn', 'g.fa', 'h.gz', 'i.fasta.fa', 'j.fa.fasta', 'k', 'l.txt', 'm.gz.gz', '/x/y.z/n.fasta.gz',
                 'o.FASTA', 'p.fa.GZ', '.fa', 'q.fagz', 'r.fasta.gz.gz', 'dir.fa/s']:
        recs.append(labels_record(path))
    for k in (-1, 0, 1, 4, 5, 16, 17, 32, 33):
        for prefix in (b'', b'A', b'atg', b'ATGN', b'AT G', b'ACGTacgt', b'U'):
            recs.append(kmerspec_record(k, prefix))
    ids = ['a', 'b,c', 'd"e', 'f\ng', 'ü', ' x ', '7']
    for nr in (1, 2, 3):
        for nc in (1, 3):
            recs.append(dmat_record(rng.sample(ids, nr), rng.sample(ids, nc), rng))
    for present in itertools.product([False, True], repeat=3):
        for ex in (False, True):
            for rq in (False, True):
                recs.append(paramgroup_record(list(present), ex, rq))
    recs += progress_records(rng)
    recs += access_records(rng)
    recs += accum_records(rng, ctx.tier)
    import shutil
    tmp = tlc.mktmp('ext-')
    try:
        recs += stream_records(ctx, tmp)
    finally:
        shutil.rmtree(tmp, ignore_errors=True)
    n, bad = tlc.judge('Judge_EXT', recs)
    ctx.traces += n
    ctx.evaluations += n
    for i, r in enumerate(recs):
        ctx.nontrivial_keys.add((r['op'], i))
    by = {}
    for r in recs:
        by[r['op']] = by.get(r['op'], 0) + 1
    ctx.families.append(dict(name='extensions', records=n, rejected=len(bad), judge='Judge_EXT', by_component=by))
    ctx.add_samples([dict(family='extensions', record=recs[5])], limit=1)
    ctx.rule_parts.append('[extensions] Taxon tree operations on every forest <= 4/5 taxa x every subset <= 3; chunk_slices for n<12 x size -1..13; '
                          'jaccard_generic/jaccard_bits on subset pairs; dense<->sparse; label stripping on 20 path shapes; KmerSpec validation and '
                          'JSON/pickle round trip; dump_dmat_csv -> load_dmat_csv with awkward ids; check_params_group truth table; progress-meter event '
                          'sequences of jaccarddist_matrix / _pairwise / iter_progress / calc_file_signatures (incl. failing runs); stream lifecycle: every operation sequence '
                          'of length <= 4/5 on ClosingIterator over synthetic sources and on SequenceFile.parse() over plain / gzip / truncated / undecodable files')
    for i, why in bad:
        print(f'EXT-DEVIATION component={recs[i]["op"]} why={why} record={core.canon(recs[i])[:300]}', flush=True)
        ctx.notes.append(f'deviation: {recs[i]["op"]} {why} {core.canon(recs[i])[:400]}')
    ctx.assumptions.append('extension components are outside the 20 listed properties: deviations are reported, never as VIOLATION lines')
