"""C03 - default classification follows the closest genome's lineage and thresholds."""
import itertools
from types import SimpleNamespace

from gambit.classify import classify, GenomeMatch, matching_taxon
from gambit.db import reportable_taxon
from gambit.query import get_result_item, QueryParams, QueryInput
from .. import core
from ..taxo import World, forests, rank_of

BLANK = dict(ok=False, err='', success=False, nwarn=0, pred=0, closest_g=0, closest_d=-1, closest_mt=0, primary_g=0,
             next=0, report=0)


def run_one(w, d, via, how='f4'):
    """One default-mode classification through one of three public entry points; all must agree with the spec."""
    x = dict(BLANK)
    try:
        dists = w.dists(d, how)
        if via == 'item':
            db = SimpleNamespace(genomes=w.genomes)
            item = get_result_item(db, QueryParams(classify_strict=False), dists, QueryInput('q'))
            res = item.classifier_result
            rep = item.report_taxon
        else:
            res = classify(w.genomes, dists, strict=False)
            rep = reportable_taxon(res.predicted_taxon)
        x['success'] = bool(res.success) and res.error is None
        x['nwarn'] = len(res.warnings)
        x['pred'] = w.t(res.predicted_taxon)
        x['closest_g'] = w.g(res.closest_match.genome)
        x['closest_d'] = w.rank_of(res.closest_match.distance)
        x['closest_mt'] = w.t(res.closest_match.matched_taxon)
        x['primary_g'] = 0 if res.primary_match is None else w.g(res.primary_match.genome)
        if via == 'match':
            # the stand-alone GenomeMatch API must agree as well
            gm = GenomeMatch(res.closest_match.genome, res.closest_match.distance)
            x['next'] = w.t(gm.next_taxon())
            x['closest_mt'] = w.t(gm.matched_taxon)
        else:
            x['next'] = w.t(res.next_taxon)
        x['report'] = w.t(rep)
        x['ok'] = True
    except Exception as e:
        x['err'] = type(e).__name__
    return x


class Fam(core.Family):
    judge = 'Judge_C03'
    procs = 16

    def execute(self, inp):
        w = World(inp.get('parent_before', inp['parent']), inp['thr'], inp['report'], inp['gt'], values=inp.get('values'), link=inp.get('link', 'parent'))
        how = inp.get('how', 'f4')
        if 'parent_before' in inp:
            # the taxonomy is edited between two classifications: walk every lineage first, then re-parent to inp['parent']
            run_one(w, inp['d'] if inp['op'] == 'one' else [inp['ds'][0]], 'classify')
            for t in w.taxa:
                list(t.ancestors(incself=True)); t.lineage(); t.depth()
            for i, pnew in enumerate(inp['parent']):
                want = w.taxa[pnew - 1] if pnew else None
                if w.taxa[i].parent is not want:
                    w.taxa[i].parent = want
        r = dict(op=inp['op'], parent=inp['parent'], thr=inp['thr'], report=inp['report'], gt=inp['gt'])
        if inp['op'] == 'one':
            r['d'] = inp['d']
            r['res'] = run_one(w, inp['d'], inp.get('via', 'classify'), how)
        else:
            r['ds'] = inp['ds']
            r['d'] = [inp['ds'][0]]
            r['runs'] = [run_one(w, [dd], inp.get('via', 'classify'), how) for dd in inp['ds']]
        return r

    def corrupt(self, rec):
        x = rec['res'] if rec['op'] == 'one' else rec['runs'][0]
        x['next'] = (x['next'] + 1) % (len(rec['parent']) + 1)
        return rec

    def nontrivial(self, inp, rec):
        # non-trivial: some taxon of the closest genome's lineage carries a threshold and the lineage has >= 2 taxa
        xs = [rec['res']] if rec['op'] == 'one' else rec['runs']
        return core.short_hash(inp) if any(x['pred'] or x['next'] for x in xs) and len(inp['parent']) >= 2 else None

    def describe(self, inp, rec):
        return core.canon(inp)[:300]


VIAS = ['classify', 'match', 'item']


class Sweeps(Fam):
    name = 'lineage-sweeps'
    exhaustive = True

    def inputs(self, ctx):
        nmax = 3 if ctx.tier == 'quick' else 4
        self.rule = (f'every forest with <= {nmax} taxa x every threshold assignment over {{none, rank 0, 1, 2}} x every taxon as the '
                     f'genome taxon, swept through distance ranks 0..3 (exact threshold hits incl. 0.0); report flags cycle through '
                     f'all subsets; entry points classify / GenomeMatch / get_result_item; forests linked through `parent` or through `children`; plus monotonicity over the sweep')
        c = 0
        for n in range(1, nmax + 1):
            for p in forests(n):
                for thr in itertools.product([-1, 0, 1, 2], repeat=n):
                    for t in range(1, n + 1):
                        c += 1
                        rep = [bool((c >> i) & 1) for i in range(n)]
                        yield dict(op='sweep', parent=p, thr=list(thr), report=rep, gt=[t], ds=[0, 1, 2, 3], via=VIAS[c % 3],
                                   link=('children' if (c // 3) % 2 else 'parent'))      # the forest is built from either side of the relationship


class MultiGenome(Fam):
    name = 'multi-genome'
    exhaustive = True

    def inputs(self, ctx):
        self.rule = ('every forest with <= 3 taxa x thresholds {none,0,1,2} x 2 genomes on any taxa (3 genomes in thorough) x distance '
                     'ranks 0..3 each (ties between genomes of different taxa included)')
        ng_list = [2] if ctx.tier == 'quick' else [2, 3]
        c = 0
        for n in range(1, 4):
            for p in forests(n):
                for thr in itertools.product([-1, 0, 1, 2], repeat=n):
                    for ng in ng_list:
                        for gt in itertools.product(range(1, n + 1), repeat=ng):
                            for d in itertools.product(range(0, 4), repeat=ng):
                                c += 1
                                if ng == 3 and c % 4:
                                    continue
                                rep = [bool((c >> i) & 1) for i in range(n)]
                                yield dict(op='one', parent=p, thr=list(thr), report=rep, gt=list(gt), d=list(d), via=VIAS[c % 3])


class RandomDeep(Fam):
    name = 'random-deep'
    exhaustive = False

    def inputs(self, ctx):
        n_sc = 5000 if ctx.tier == 'quick' else 80000
        self.rule = (f'{n_sc} seeded random scenarios: forests of 4-9 taxa (depth up to 8, several roots, long threshold-less runs, '
                     f'non-monotone thresholds, unreportable taxa), 1-6 genomes incl. on internal taxa, distance ranks 0..6 with ties')
        rng = ctx.rng
        for i in range(n_sc):
            n = rng.randint(4, 9)
            if i % 3 == 0:
                p = [0] + [t - 1 for t in range(2, n + 1)]
            else:
                p = [0] + [rng.randint(0, t - 1) if rng.random() < 0.85 else 0 for t in range(2, n + 1)]
            thr = [rng.choice([-1, -1, 0, 1, 2, 3, 4, 5]) for _ in range(n)]
            rep = [rng.random() < 0.6 for _ in range(n)]
            ng = rng.randint(1, 6)
            gt = [rng.randint(1, n) for _ in range(ng)]
            d = [rng.randint(0, 6) for _ in range(ng)]
            if i % 2 == 0:
                yield dict(op='one', parent=p, thr=thr, report=rep, gt=gt, d=d, via=VIAS[i % 3])
            else:
                yield dict(op='sweep', parent=p, thr=thr, report=rep, gt=gt[:1], ds=list(range(0, 7)), via=VIAS[i % 3])


class Reparented(Fam):
    name = 'reparented-between-calls'
    exhaustive = True
    rule = ('every ordered pair of distinct forests on 3 taxa (4 in thorough, sampled): classify and walk all lineages on the first, re-parent the '
            'SAME Taxon objects into the second, then sweep all distance ranks; judged against the second forest')

    def inputs(self, ctx):
        n = 3 if ctx.tier == 'quick' else 4
        fs = forests(n)
        c = 0
        for p1 in fs:
            for p2 in fs:
                if p1 == p2:
                    continue
                c += 1
                if n == 4 and c % 5:
                    continue
                for thr in ([2, 1, 0][:n] + [1] * (n - 3), [-1, 2, 1] + [0] * (n - 3), [1, -1, 2] + [2] * (n - 3)):
                    for t in range(1, n + 1):
                        yield dict(op='sweep', parent=p2, parent_before=p1, thr=list(thr), report=[bool((c >> i) & 1) for i in range(n)], gt=[t], ds=[0, 1, 2, 3], via=VIAS[c % 3])


class DeepChains(Fam):
    """very deep lineages (sub-sub-...-species far below the only taxon that carries a threshold / is reportable)"""
    name = 'deep-lineages'
    exhaustive = False
    procs = 4

    def inputs(self, ctx):
        depths = [63, 64, 65, 66, 100, 300] + ([900] if ctx.tier == 'thorough' else [])
        self.rule = (f'single lineages of {depths} taxa with the genome on the deepest taxon: threshold / reportable flag only on the root, only '
                     f'on the 2nd taxon, every 40th taxon, or nowhere; distance ranks 0..3; three entry points')
        c = 0
        for n in depths:
            parent = list(range(0, n))
            for where in ('root', 'second', 'every40', 'none', 'bottom-and-root'):
                thr = [-1] * n
                rep = [False] * n
                if where == 'root':
                    thr[0], rep[0] = 2, True
                elif where == 'second':
                    thr[1], rep[0] = 1, True
                elif where == 'every40':
                    for i in range(0, n, 40):
                        thr[i] = 3 - (i // 40) % 3
                        rep[i] = (i // 40) % 2 == 0
                elif where == 'bottom-and-root':
                    thr[n - 1], thr[0], rep[0] = 0, 3, True
                for via in VIAS:
                    c += 1
                    yield dict(op='sweep', parent=parent, thr=thr, report=rep, gt=[n], ds=[0, 1, 2, 3], via=via, link=('children' if c % 2 else 'parent'))


def awkward_values():
    """thresholds and distances that are NOT exactly representable in single precision, next to their float32 roundings and float64 neighbours"""
    import numpy as np
    base = [0.1, 0.2, 0.3, 0.6, 0.7, 1 / 3]
    vals = set()
    for b in base:
        vals |= {b, float(np.float32(b)), float(np.nextafter(b, 1.0)), float(np.nextafter(b, 0.0))}
    import numpy as _np
    vals |= {1.0, float(_np.nextafter(_np.float32(1), _np.float32(0))), float(_np.nextafter(1.0, 0.0)), 1.5, 2.0}      # disjoint genomes; catch-all thresholds
    return sorted(vals)


class AwkwardValues(Fam):
    """Thresholds are Python floats (doubles) and need not be float32 values; distance vectors may legally be float64 arrays or plain lists.
    The order of the exact values decides; a distance that equals a threshold matches, one a float64 / float32 ulp above it does not."""
    name = 'non-dyadic-thresholds-and-float64-distances'
    exhaustive = False

    def inputs(self, ctx):
        n_sc = 2500 if ctx.tier == 'quick' else 30000
        vals = awkward_values()
        import numpy as np
        f32ok = [i for i, v in enumerate(vals) if float(np.float32(v)) == v]
        self.rule = (f'{n_sc} seeded scenarios over {len(vals)} values {{0.1, 0.2, 0.3, 0.6, 0.7, 1/3}} with their float32 roundings and float64 neighbours: '
                     f'forests of 1-4 taxa, thresholds any of the values, 1-3 genomes, distances any of the values given as float64 array, plain list, '
                     f'or float32 array (values exact in float32 only); three entry points')
        rng = ctx.rng.__class__(ctx.seed + 33)
        for i in range(n_sc):
            n = rng.randint(1, 4)
            p = [0] + [rng.randint(0, t - 1) for t in range(2, n + 1)]
            how = ['f8', 'list', 'f4'][i % 3]
            pool = f32ok if how == 'f4' else list(range(len(vals)))
            anchor = rng.choice(pool)
            near = [x for x in pool if abs(x - anchor) <= 3 and vals[x] <= 1.0] or [x for x in pool if vals[x] <= 1.0][-3:]        # distances lie in [0, 1]
            thr = [rng.choice([-1] + [x for x in range(len(vals)) if abs(x - anchor) <= 3]) for _ in range(n)]
            ng = rng.randint(1, 3)
            gt = [rng.randint(1, n) for _ in range(ng)]
            d = [rng.choice(near) for _ in range(ng)]
            yield dict(op='one', parent=p, thr=thr, report=[rng.random() < 0.7 for _ in range(n)], gt=gt, d=d, via=VIAS[i % 3], how=how, values=vals)


FAMILIES = [Sweeps, MultiGenome, RandomDeep, Reparented, AwkwardValues, DeepChains]


def run(ctx):
    acts = ['MatchStep', 'NextStep', 'ReportStart', 'ReportStep']
    if ctx.tier == 'quick':
        ctx.mc('ClassifyAlgo', 'MC_ClassifyAlgo.cfg', require_actions=acts, workers=16,
               note='lineage walks (matching_taxon, next_taxon as repaired, reportable_taxon) == definitions; all forests of 3 taxa, '
                    'thresholds none/0..2, all report flags, distances 0..3; NextShape and Monotone')
    else:
        ctx.mc('ClassifyAlgo', 'MC_ClassifyAlgo.cfg', require_actions=acts, workers=16, overrides=dict(N=4, MaxRank=2), timeout=7000,
               note='all forests of 4 taxa')
    ctx.mc('ClassifyAlgo', 'MC_ClassifyAlgo.cfg', expect='NextCorrect', overrides=dict(StartAtThreshold='FALSE'),
           note='negative control: next_taxon as found at the pinned commit returns a threshold-less genome taxon')
    for F in FAMILIES:
        core.run_family(ctx, F())
    sample = list(RandomDeep().inputs(ctx))[:40] + list(DeepChains().inputs(ctx))[:10] + list(AwkwardValues().inputs(ctx))[:30]
    core.run_concurrent(ctx, RandomDeep(), sample, secs=3 if ctx.tier == 'quick' else 15, name='concurrent-callers')
    ctx.assumptions += ['distances/thresholds abstracted to ranks (rank r = r/16, exact in float32 and float64)',
                        'the closest match may be any genome at the minimum distance (C09 pins it to the first)']


def replay(ctx, scen):
    if scen['family'] not in {F.name for F in FAMILIES}:
        return core.RERUN            # reported outside a judged family: replay by re-running the check
    fam = {F.name: F for F in FAMILIES}[scen['family']]()
    recs, bad = core.run_family(ctx, fam, inputs=[scen['inputs']])
    return not bad
