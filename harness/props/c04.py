"""C04 - each reference genome is compared through its own signature, matched by ID."""
import itertools
import os
import shutil

import numpy as np

from gambit.db import ReferenceDatabase
from gambit.query import query, QueryParams
from .. import core, tlc
from ..enc import blist, f32_bits
from .. import world as W

ATTRS = ['key', 'genbank_acc', 'refseq_acc', 'ncbi_id']


def small_world(seed):
    w = W.default_world(seed)
    w['genomes'] = w['genomes'][:4]            # 4 genomes: s1_a, s1_b, s1a_a, s1a_dup(identical to s1a_a -> make it distinct)
    w['genomes'][3]['contigs'] = [W.mutate(__import__('random').Random(seed + 5), w['genomes'][0]['contigs'][0], 0.2)]
    return w


def tokens(values):
    """injective map of id values (str / int / None) to small ints, for TLC"""
    seen = {}
    out = []
    for v in values:
        if v is None:
            out.append(None)
        else:
            out.append(seen.setdefault(repr(v), len(seen) + 1))
    return out, seen


_LIVE = []


def load_record(tmp, sc, idx):
    """materialise scenario sc as a real directory and load it"""
    w = sc['world']
    if idx % 2 == 0:
        # every second scenario is built at ONE path per worker process, replacing the database that was there before: a rebuilt database
        # directory is loaded again in the same process
        d = os.path.join(tmp, f'reused_{os.getpid()}')
        shutil.rmtree(d, ignore_errors=True)
    else:
        d = os.path.join(tmp, f'db{idx}')
    os.makedirs(d)
    attr = sc['id_attr']
    store_attr = sc.get('store_attr', attr if attr in ATTRS else 'key')         # attribute whose values are written as ids
    genomes = [dict(g) for g in w['genomes']]
    for gi, a in sc.get('nulls', []):
        genomes[gi][a] = None
    for gi, a, val in sc.get('rename', []):
        genomes[gi][a] = val
    for gi, gj in sc.get('dup_ncbi', []):
        genomes[gj]['ncbi_id'] = genomes[gi]['ncbi_id']          # legal: ncbi_id is unique only together with ncbi_db
        genomes[gj]['ncbi_db'] = 'nuccore'
    w2 = dict(w, genomes=genomes)
    sig_order = sc['sig_order']
    W.build_db(d, dict(w2, genomes=[dict(g, **{store_attr: g[store_attr] if g[store_attr] is not None else f'none{j}'}) for j, g in enumerate(genomes)]),
               id_attr=store_attr, sig_order=sig_order, extra_sigs=sc.get('extra', []))
    # the .gdb must carry the nulls; rebuild it from w2 (signature file stays)
    gs_tmp = os.path.join(d, 'ref.gs')
    scratch = os.path.join(tmp, f'scratch{idx}')           # built elsewhere: nothing but the final files is ever written at the database path
    W.build_db(scratch, w2 if not sc.get('nulls') else dict(w2, genomes=[dict(g, key=g['key']) for g in genomes]), id_attr='key',
               annot_order=sc.get('annot_order'), orphans=sc.get('orphans', ()))
    os.replace(os.path.join(scratch, 'ref.gdb'), os.path.join(d, 'ref.gdb'))
    shutil.rmtree(scratch, ignore_errors=True)
    # the genome database is being curated: ANOTHER connection (write-ahead-log mode, kept open, nothing checkpointed) has committed
    # changes of identifiers; what is loaded afterwards must be the database as committed
    for op in sc.get('live', []):
        import sqlite3
        con = sqlite3.connect(os.path.join(d, 'ref.gdb'), isolation_level=None)
        _LIVE.append(con)
        con.execute('PRAGMA journal_mode=WAL')
        con.execute('PRAGMA wal_autocheckpoint=0')
        col = store_attr
        rowid = lambda gi: con.execute('SELECT id FROM genomes WHERE key = ?', (genomes[gi]['key'],)).fetchone()[0]
        con.execute('BEGIN')
        if op[0] == 'swap':
            gi, gj = op[1], op[2]
            ri, rj = rowid(gi), rowid(gj)
            a, b = genomes[gi][col], genomes[gj][col]
            con.execute(f'UPDATE genomes SET {col} = ? WHERE id = ?', (-77 if col == 'ncbi_id' else '__moving__', ri))
            con.execute(f'UPDATE genomes SET {col} = ? WHERE id = ?', (a, rj))
            con.execute(f'UPDATE genomes SET {col} = ? WHERE id = ?', (b, ri))
            genomes[gi][col], genomes[gj][col] = b, a
            genomes[gi]['contigs'], genomes[gj]['contigs'] = genomes[gj]['contigs'], genomes[gi]['contigs']     # the signature follows the identifier
        else:
            gi, val = op[1], op[2]
            con.execute(f'UPDATE genomes SET {col} = ? WHERE id = ?', (val, rowid(gi)))
            genomes[gi][col] = val
        con.execute('COMMIT')
    # metadata id_attr as the scenario wants it (possibly None / junk): rewrite the attribute in place
    import h5py
    with h5py.File(gs_tmp, 'r+') as f:
        if attr is None and sc.get('attr_absent'):
            del f.attrs['id_attr']                    # the attribute is not there at all (a file written by another tool / an older version)
        elif attr is None:
            f.attrs['id_attr'] = h5py.Empty(h5py.string_dtype())
        else:
            f.attrs['id_attr'] = attr
    # directory listing
    listing = sc.get('listing')
    if listing is not None:
        have = {('ref', '.gdb'): os.path.join(d, 'ref.gdb'), ('ref', '.gs'): gs_tmp}
        d2 = os.path.join(tmp, f'dir{idx}' if idx % 2 else f'reuseddir_{os.getpid()}')
        shutil.rmtree(d2, ignore_errors=True)
        os.makedirs(d2)
        for ent in listing:
            name = ent['name'] + ent['ext']
            if ent['dir']:
                os.makedirs(os.path.join(d2, name))
            elif ent['ext'] in ('.gdb', '.db'):
                shutil.copy(have[('ref', '.gdb')], os.path.join(d2, name))
            elif ent['ext'] in ('.gs', '.h5'):
                shutil.copy(have[('ref', '.gs')], os.path.join(d2, name))
            else:
                open(os.path.join(d2, name), 'w').write('notes')
        d = d2
    # abstract ids
    import h5py as _h
    with _h.File(gs_tmp, 'r') as f:
        raw = f['ids'][:]
        stored = [x.decode() if isinstance(x, bytes) else (int(x) if not isinstance(x, str) else x) for x in raw]
    vals = list(stored)
    for g in genomes:
        for a in ATTRS:
            vals.append(g[a])
    toks, table = tokens(vals)
    tok = lambda v: None if v is None else table[repr(v)]
    r = dict(op='load', genomes=[{a: ([] if g[a] is None else [tok(g[a])]) for a in ATTRS} for g in genomes],
             sigIds=[tok(v) for v in stored], idAttr=[] if attr is None else [attr],
             listing=listing if listing is not None else [dict(name='ref', ext='.gdb', dir=False), dict(name='ref', ext='.gs', dir=False)],
             outcome='', err='', g=[], I=[])
    db = None
    try:
        db = ReferenceDatabase.load_from_dir(d)
        r['outcome'] = 'loaded'
        keyidx = {g['key']: j + 1 for j, g in enumerate(genomes)}
        r['g'] = [keyidx.get(ag.key, 0) if ag.genome_set_id == db.genomeset.id else 0 for ag in db.genomes]      # 0: not a member of the genome set
        r['I'] = [int(i) for i in db.sig_indices]
    except Exception as e:
        r['outcome'] = 'error'
        r['err'] = type(e).__name__
    return r, db, w2


def dist_record(db, w, g, probe, chunks):
    r = dict(op='dist', db=W.world_for_tlc(w), probe=[blist(c.encode()) for c in probe], g=g, rows=[], ok=False, err='')
    try:
        qsig = W.real_signature(w['kspec'], probe)
        for cs in chunks:
            res = query(db, [qsig], QueryParams(chunksize=cs, report_closest=len(g)))
            item = res.items[0]
            # distances per database genome, read from the closest-genomes list (all genomes are listed)
            by_genome = {id(m.genome): m.distance for m in item.closest_genomes}
            r['rows'].append(dict(chunk=cs or 0, dists=[f32_bits(by_genome[id(ag)]) for ag in db.genomes]))
        r['ok'] = True
    except Exception as e:
        r['err'] = f'{type(e).__name__}: {e}'[:150]
    return r


def _one_scenario(args):
    tmp, sc, idx, probe = args
    out = []
    try:
        from gambit._cython.threads import omp_set_num_threads
        omp_set_num_threads(2)
        r, db, w2 = load_record(tmp, sc, idx)
        out.append(('load', r))
        if db is not None and sc.get('probe') and r['g'] and all(r['g']):
            out.append(('dist', dist_record(db, w2, r['g'], probe, [1000, 1, 2, 3])))
        while _LIVE:
            _LIVE.pop().close()
        if db is not None:
            try:
                db.signatures.close()
                db.session.close()
            except Exception:
                pass
    except Exception as e:
        import traceback
        out.append(('fail', traceback.format_exc()[-1500:]))
    finally:
        shutil.rmtree(os.path.join(tmp, f'db{idx}'), ignore_errors=True)
        shutil.rmtree(os.path.join(tmp, f'dir{idx}'), ignore_errors=True)
    return out


def scenarios(ctx):
    w = small_world(ctx.seed)
    n = len(w['genomes'])
    extra1 = [dict(id='unrelated_X', contigs=[W.rand_seq(__import__('random').Random(3), 200)], pos=0)]
    # every order of the 4 genome signatures + 1 unrelated signature (120 files), for each identifier attribute
    orders = list(itertools.permutations(range(n + 1)))
    step = 1 if ctx.tier == 'thorough' else 3
    for ai, attr in enumerate(ATTRS):
        for oi, perm in enumerate(orders):
            if (oi + ai) % step and attr != 'key':
                continue
            pos_x = perm.index(n)
            order = [x for x in perm if x != n]
            yield dict(world=w, id_attr=attr, sig_order=order, extra=[dict(extra1[0], pos=pos_x, id=(9999 if attr == 'ncbi_id' else 'unrelated_X'))], probe=True)
    # an unrelated signature whose id has a genome id as proper prefix and is longer than every genome id
    for attr in ('key', 'genbank_acc', 'refseq_acc'):
        gid = w['genomes'][2][attr]
        longer = str(gid) + '0'
        yield dict(world=w, id_attr=attr, sig_order=[0, 1, 2, 3], extra=[dict(extra1[0], pos=1, id=longer)], probe=True, why='prefix-extended unrelated id, own signature present')
        yield dict(world=w, id_attr=attr, sig_order=[0, 1, 3], extra=[dict(extra1[0], pos=2, id=longer)], why='prefix-extended unrelated id, own signature MISSING: must fail')
        yield dict(world=w, id_attr=attr, sig_order=[3, 2, 1, 0], extra=[dict(extra1[0], pos=0, id=str(gid)[:-1])], probe=True, why='unrelated id that is a proper prefix of a genome id')
    # completeness violations
    yield dict(world=w, id_attr='key', sig_order=[0, 1, 2], why='genome without signature')
    yield dict(world=w, id_attr='key', sig_order=[3, 1], why='two genomes without signature')
    yield dict(world=w, id_attr=None, sig_order=list(range(n)), why='metadata names no identifier attribute')
    for store in ATTRS:
        yield dict(world=w, id_attr=None, attr_absent=True, store_attr=store, sig_order=list(range(n)), why=f'the id_attr attribute is absent from the file (ids are {store} values)')
        yield dict(world=w, id_attr=None, store_attr=store, sig_order=[2, 0, 1, 3], why=f'the id_attr attribute is empty (ids are {store} values)')
    yield dict(world=w, id_attr='description', sig_order=list(range(n)), why='invalid identifier attribute')
    yield dict(world=w, id_attr='refseq_acc', store_attr='key', sig_order=list(range(n)), why='ids are keys but id_attr says refseq_acc')
    yield dict(world=w, id_attr='genbank_acc', sig_order=list(range(n)), nulls=[(1, 'genbank_acc')], why='a genome with a null identifier')
    yield dict(world=w, id_attr='ncbi_id', sig_order=list(range(n)), nulls=[(0, 'ncbi_id')], why='a genome with a null identifier')
    yield dict(world=w, id_attr='key', sig_order=list(range(n)), nulls=[(2, 'refseq_acc')], why='null in an attribute that is not used: must load')
    # genomes imported first and attached to the genome set later in another order (the rows of the two tables are ordered differently)
    for attr in ATTRS:
        for ao in ([3, 2, 1, 0], [2, 0, 3, 1]):
            yield dict(world=w, id_attr=attr, sig_order=[1, 3, 0, 2], annot_order=ao, probe=True, extra=[dict(extra1[0], pos=2, id=(9999 if attr == 'ncbi_id' else 'unrelated_X'))],
                       why=f'annotations inserted in order {ao}')
    # annotation rows of a removed genome set still in the file (orphans): only the loaded set's own genomes count
    for attr in ('key', 'refseq_acc'):
        yield dict(world=w, id_attr=attr, sig_order=[2, 0, 3, 1], orphans=[1, 3], probe=True, why='orphan annotations of set genomes')
        foreign = dict(key='foreign_g', genbank_acc='GCA_9999.1', refseq_acc='GCF_9999.1', ncbi_id=99999)
        yield dict(world=w, id_attr=attr, sig_order=[0, 1, 3], orphans=[foreign], extra=[dict(extra1[0], pos=1, id=foreign[attr])],
                   why='a genome of no set has a signature, a set genome has none: must fail')
    # identifiers that differ only by trailing white space (blank, tab, newline) or by case: exact matching, nothing trimmed or folded
    for attr in ('key', 'genbank_acc', 'refseq_acc'):
        base = w['genomes'][0][attr]
        for suffix in (' ', '\t', '\n', '  '):
            yield dict(world=w, id_attr=attr, sig_order=[3, 1, 0, 2], rename=[(1, attr, base + suffix)], probe=True, why=f'two ids differing by trailing white space {suffix!r}')
            yield dict(world=w, id_attr=attr, sig_order=[0, 2, 3], rename=[(1, attr, base + suffix)], why=f'id with trailing white space {suffix!r}, its signature missing: must fail')
        yield dict(world=w, id_attr=attr, sig_order=[1, 0, 2, 3], rename=[(1, attr, base.swapcase())], probe=True, why='two ids differing by case')
        yield dict(world=w, id_attr=attr, sig_order=[2, 0, 1, 3], rename=[(2, attr, ' ' + base)], probe=True, why='two ids differing by leading white space')
    # identifiers changed by another, still open connection in write-ahead-log mode (committed, not checkpointed) before loading
    for attr in ATTRS:
        yield dict(world=w, id_attr=attr, sig_order=[2, 0, 3, 1], live=[('swap', 0, 2)], probe=True, why='two identifiers swapped by a live write-ahead-log connection')
        yield dict(world=w, id_attr=attr, sig_order=[0, 1, 2, 3], live=[('swap', 1, 3), ('swap', 1, 0)], probe=True, extra=[dict(extra1[0], pos=2, id=(9999 if attr == 'ncbi_id' else 'unrelated_X'))],
                   why='two swaps by two live connections')
        yield dict(world=w, id_attr=attr, sig_order=[3, 2, 1, 0], live=[('set', 1, 424242 if attr == 'ncbi_id' else 'renamed_live')], why='identifier renamed by a live connection, no such signature: must fail')
    # two genomes sharing an ncbi_id (different ncbi_db): refusing is fine, a database lacking one of them is not
    yield dict(world=w, id_attr='ncbi_id', sig_order=[0, 1, 2], dup_ncbi=[(0, 3)], why='two genomes share the id value')
    yield dict(world=w, id_attr='ncbi_id', sig_order=[2, 1, 3], dup_ncbi=[(3, 0)], extra=[dict(extra1[0], pos=0, id=9999)], why='two genomes share the id value (unrelated signature too)')
    yield dict(world=w, id_attr='key', sig_order=list(range(n)), dup_ncbi=[(0, 3)], why='shared ncbi_id but ids are keys: must load')
    # directory contents: every subset of six entries
    ents = [dict(name='ref', ext='.gdb', dir=False), dict(name='old', ext='.db', dir=False), dict(name='ref', ext='.gs', dir=False),
            dict(name='alt', ext='.h5', dir=False), dict(name='notes', ext='.txt', dir=False), dict(name='subdir', ext='', dir=True)]
    for m in range(64):
        yield dict(world=w, id_attr='key', sig_order=list(range(n)), listing=[e for i, e in enumerate(ents) if (m >> i) & 1], probe=(m % 8 == 5))


def run(ctx):
    ctx.mc('MC_RefDb', 'MC_RefDb.cfg', require_actions=['Check', 'Scan', 'Count'], workers=16,
           overrides=dict(MaxGenomes=2, MaxSigs=3) if ctx.tier == 'quick' else dict(MaxGenomes=2, MaxSigs=3, Ids='{1, 2, 3, 4}'), timeout=5000,
           note='loading pipeline == definition for all genome sets (null patterns, unique constraints), all duplicate-free signature id '
                'sequences incl. unrelated ids, id_attr none / valid / invalid; directory-listing rule over all 64 subsets (ASSUME)')
    tmp = tlc.mktmp('c04-')
    try:
        recs, metas = [], []
        probe = W.query_pool(W.default_world(ctx.seed))[0]['contigs']
        scs = list(scenarios(ctx))
        import multiprocessing as mp
        with mp.get_context('spawn').Pool(14) as pool:
            outs = pool.map(_one_scenario, [(tmp, sc, idx, probe) for idx, sc in enumerate(scs)], chunksize=4)
        for sc, out in zip(scs, outs):
            for kind, r in out:
                if kind == 'fail':
                    raise tlc.MachineryError(f'C04 scenario driver failed: {r}')
                recs.append(r)
                metas.append(sc if kind == 'load' else dict(sc, kind='dist'))
        n, bad = tlc.judge('Judge_C04', recs)
        for i, why in bad:
            sc = metas[i]
            ctx.report('refdb', {k: v for k, v in sc.items() if k != 'world'}, recs[i] if recs[i]['op'] == 'load' else dict(recs[i], db='(omitted)'), why,
                       key=f'refdb:{recs[i]["op"]}:{sc.get("id_attr")}:{sc.get("why", "order")}:{why[0] if why else ""}',
                       describe=f'{ {k: v for k, v in sc.items() if k not in ("world", "extra")} } -> {recs[i].get("outcome", "")} {recs[i].get("err", "")} g={recs[i].get("g")} I={recs[i].get("I")}')
        ctx.traces += n
        ctx.evaluations += n
        for sc, r in zip(metas, recs):
            if r['op'] == 'dist' or r.get('outcome') == 'loaded':
                ctx.nontrivial_keys.add(('refdb', core.short_hash([{k: v for k, v in sc.items() if k != 'world'}, r['op']])))
        ctx.families.append(dict(name='refdb', records=n, rejected=len(bad), judge='Judge_C04',
                                 loads=sum(1 for r in recs if r.get('outcome') == 'loaded'), errors=sum(1 for r in recs if r.get('outcome') == 'error'),
                                 distance_records=sum(1 for r in recs if r['op'] == 'dist')))
        ctx.add_samples([dict(family='refdb', record=recs[0]), dict(family='refdb', record={k: v for k, v in recs[1].items() if k != 'db'})], limit=2)
        ctx.rule_parts.append('[refdb] real directories (sqlite via the repo models, .gs via dump_signatures): every order of 4 genome signatures + 1 '
                              'unrelated signature for each of the four identifier attributes (string and integer ids; all 120 orders for key, '
                              'every third for the others in quick), all ways of violating completeness, all 64 subsets of a 6-entry directory '
                              'listing; loaded databases are probed through query() with chunk sizes 1000/1/2/3 and every reported distance is '
                              'recomputed by TLC from the sequences of the genome\'s OWN contigs; every second database is built at a path that held another database before (same process)')
        ctx.exhaustive_all = ctx.tier == 'thorough'
        # self-test: swap two signature indices / claim a failed load succeeded
        good = next(r for r in recs if r['op'] == 'load' and r['outcome'] == 'loaded' and len(r['I']) >= 2)
        c1 = dict(good, I=[good['I'][1], good['I'][0]] + good['I'][2:])
        failed = next(r for r in recs if r['op'] == 'load' and r['outcome'] == 'error')
        c2 = dict(failed, outcome='loaded', g=[1], I=[0])
        dgood = next(r for r in recs if r['op'] == 'dist')
        c3 = dict(dgood, g=dgood['g'][1:] + dgood['g'][:1])
        _, b2 = tlc.judge('Judge_C04', [c1, c2, c3], shards=1)
        ctx.selftests.append(dict(family='refdb', corrupted=3, rejected=len({i for i, _ in b2})))
        if len({i for i, _ in b2}) != 3:
            raise tlc.MachineryError('self-test: Judge_C04 accepted a swapped pairing / a swallowed load error / rotated distances')
    finally:
        shutil.rmtree(tmp, ignore_errors=True)
    ctx.assumptions += ['identifier values are tokenised injectively to small integers for TLC',
                        'the signature file\'s id_attr metadata is rewritten with h5py to produce the none / junk / wrong-attribute scenarios']


replay = core.RERUN
