"""C19 - an interrupted signature-file write never yields a loadable wrong file."""
import json
import os
import shutil
import subprocess

import numpy as np

from .. import core, tlc

PY = '/venv/bin/python'


def run_writer(spec, timeout=600):
    env = dict(os.environ, PYTHONHASHSEED='0')
    p = subprocess.run([PY, '-W', 'ignore', '-m', 'harness.h5writer', json.dumps(spec)], cwd=tlc.VERIF, env=env,
                       stdout=subprocess.PIPE, stderr=subprocess.PIPE, text=True, timeout=timeout)
    return p


def payloads(tier):
    small = [dict(n=n, size=10, container=c, compression=None) for n in (1, 2, 4) for c in ('array', 'list', 'annotated-array', 'annotated-list')]
    small += [dict(n=3, size=10, container=c, compression='gzip') for c in ('array', 'list')]
    small += [dict(n=3, size=7, container='list', compression=None, vary=True), dict(n=2, size=0, container='list', compression=None)]
    small += [dict(n=3, size=10, container=c, compression=None, preexisting=True) for c in ('array', 'list', 'annotated-list')]
    # the write as `gambit signatures create` does it: after a pooled signature calculation; death by os._exit and by SIGTERM
    small += [dict(n=3, size=6, container='cli', compression=None, mode='cli', kill=k) for k in ('exit', 'sigterm')]
    small += [dict(n=3, size=6, container='cli-meta', compression=None, mode='cli', kill='exit', with_meta=True)]      # ids (-i) and metadata (-m) given
    # two writers on one path: a rival process writes another collection in full while this writer is between two signature writes
    small += [dict(n=6, size=10, container='list', compression=None, rival_at=17)]
    big = [dict(n=4, size=300000, container=c, compression=comp) for c in ('array', 'annotated-list') for comp in (None, 'gzip')]
    big += [dict(n=3, size=300000, container='list', compression=None, preexisting=True)]
    big += [dict(n=6, size=200000, container='list', compression=None, rival_at=at) for at in (17, 18)]      # multi-megabyte signatures go to disk at once
    # a payload beyond 2^26 bytes (sizes at which writers start to pre-allocate / switch strategy), written signature by signature
    big += [dict(n=5, size=1_800_000, container='annotated-list', compression=None)]
    if tier == 'thorough':
        big += [dict(n=3, size=3_000_000, container='list', compression=None), dict(n=9, size=1_000_000, container='array', compression=None)]
        small += [dict(n=n, size=12, container=c, compression=comp, preexisting=pre)
                  for n in (1, 3, 5) for c in ('array', 'list', 'annotated-array', 'annotated-list') for comp in (None, 'gzip', 'lzf') for pre in (False, True)]
        small += [dict(n=6, size=25, container=c, compression='lzf') for c in ('array', 'list')]
        big += [dict(n=5, size=260000, container='list', compression=None), dict(n=3, size=800000, container='annotated-array', compression=None)]
    return small, big


def record_trace(tmp, pl, idx):
    out = os.path.join(tmp, f't{idx}.gs')
    tr = os.path.join(tmp, f't{idx}.json')
    p = run_writer(dict({k: v for k, v in pl.items() if k != 'rival_at'}, out=out, crash_at=-1, trace=tr))      # the call sequence of the writer on its own
    if p.returncode != 0:
        raise tlc.MachineryError(f'writer failed without crash injection: {p.stderr[-1500:]}')
    calls = json.load(open(tr))
    if os.path.exists(out):
        os.remove(out)
    return calls


def same_content(pl, path):
    """load the leftover file with the real loader and compare with what was being written"""
    from gambit.sigs import load_signatures
    from harness.h5writer import payload
    try:
        loaded = load_signatures(path)
    except BaseException as e:
        return 'error', type(e).__name__
    try:
        if pl.get('mode') == 'cli':
            # intended content = what an uninterrupted run of the same command writes
            ref = path + '.ref.gs'
            pr = run_writer(dict(pl, out=ref, crash_at=-1, trace=None))
            want = load_signatures(ref)
        else:
            want = payload(pl)

        def same(want):
            ok = loaded.kmerspec == want.kmerspec and len(loaded) == len(want)
            ok = ok and all(np.array_equal(np.asarray(a), np.asarray(b)) and np.asarray(a).dtype == np.asarray(b).dtype for a, b in zip(loaded, want))
            if hasattr(want, 'ids'):
                ok = ok and list(loaded.ids) == list(want.ids) and loaded.meta == want.meta
            else:
                ok = ok and list(loaded.ids) == list(range(len(want)))
            return ok
        ok = same(want)
        if not ok and pl.get('rival_at') is not None and same(payload(dict(pl, seed=pl.get('seed', 1) + 500))):
            return 'loaded-rival-complete', ''      # a complete file of the rival writer is a collection somebody wrote in full: not a wrong file
        return ('loaded-equal' if ok else 'loaded-different'), ''
    except BaseException as e:
        return 'loaded-different', f'compare failed: {type(e).__name__}'
    finally:
        try:
            loaded.close()
        except Exception:
            pass


def crash_record(tmp, pl, ncalls, crash_at, idx):
    out = os.path.join(tmp, f'c{idx}_{crash_at}.gs')
    p = run_writer(dict(pl, out=out, crash_at=crash_at, trace=None))
    rc = p.returncode
    if pl.get('kill') == 'sigterm' and crash_at < ncalls and rc in (-15, 143):
        rc = 99                                   # died from SIGTERM at the chosen point
    r = dict(payload=pl, ncalls=ncalls, crash_at=crash_at, writer_rc=rc, outcome='', detail='')
    if not os.path.exists(out):
        r['outcome'] = 'no-file'
    else:
        r['outcome'], r['detail'] = same_content(pl, out)
        r['size'] = os.path.getsize(out)
        os.remove(out)
        if os.path.exists(out + '.ref.gs'):
            os.remove(out + '.ref.gs')
    return r


def run(ctx):
    ctx.level = 'model_checking'
    ctx.mc('MC_SigStore', 'MC_SigStore.cfg', require_actions=['Call', 'RawWriteback'], overrides=dict(MaxSigs=3 if ctx.tier == 'quick' else 5),
           note='both write paths, crash-safety in every reachable state (= every crash point, every write-back interleaving)')
    ctx.mc('MC_SigStore', 'MC_SigStore.cfg', expect='CrashSafe', overrides=dict(ExplicitFlush='TRUE'),
           note='negative control: a flush between two calls makes a loadable incomplete file reachable')
    ctx.mc('MC_SigStore', 'MC_SigStore.cfg', expect='CrashSafe', overrides=dict(EvictionPossible='TRUE'),
           note='documents the assumption: if the library could evict metadata on its own the property would depend on timing')
    tmp = tlc.mktmp('c19-')
    try:
        small, big = payloads(ctx.tier)
        # (judge, trace) the real call sequences replayed through the library model
        traces = tlc.run_many([(record_trace, (tmp, pl, i), {}) for i, pl in enumerate(small + big)], max_parallel=8)
        recs = [dict(calls=c) for c in traces]
        # the model explores 2^(#written intervals) write-back interleavings: keep traces of the small payloads for TLC
        judged = [(pl, r) for pl, r in zip(small + big, recs) if sum(1 for c in r['calls'] if c['op'] in ('write', 'create_dataset')) <= 12]
        n, bad = tlc.judge('Trace_SigStore', [r for _, r in judged], cfg='Trace_SigStore.cfg', shards=min(8, len(judged)))
        for i, why in bad:
            pl, r = judged[i]
            ctx.report('writer-trace', pl, r, why, key=f'writer-trace:{pl["container"]}:{why}', describe=f'payload={pl}')
        ctx.traces += n
        ctx.evaluations += n
        for pl, r in judged:
            ctx.nontrivial_keys.add(('writer-trace', core.short_hash(r)))
        ctx.families.append(dict(name='writer-trace', records=n, rejected=len(bad), judge='Trace_SigStore'))
        ctx.add_samples([dict(family='writer-trace', payload=judged[0][0], calls=judged[0][1]['calls'])], limit=1)
        # binding self-test: insert a flush before the last data write of an accepted items-path trace -> must be rejected
        victim = next(r for pl, r in judged if pl['container'] == 'list' and pl['n'] >= 2)
        calls = list(victim['calls'])
        pos = max(i for i, c in enumerate(calls) if c['op'] == 'write')
        corrupted = dict(calls=calls[:pos] + [dict(calls[pos], op='flush', name='')] + calls[pos:])
        dropped = dict(calls=[c for c in calls if not (c['op'] == 'write' and c['name'] == 'values' and c['lo'] == 0)])
        _, bad2 = tlc.judge('Trace_SigStore', [corrupted, dropped], cfg='Trace_SigStore.cfg', shards=1)
        ctx.selftests.append(dict(family='writer-trace', corrupted=2, rejected=len({i for i, _ in bad2})))
        if len({i for i, _ in bad2}) != 2:
            raise tlc.MachineryError('self-test: Trace_SigStore accepted a trace with an inserted flush / a dropped write')
        # (generator) every crash point of every payload, real process death, real loader
        jobs = []
        for idx, (pl, calls) in enumerate(zip(small + big, traces)):
            ncalls = len(calls)
            # with a pre-existing file the write has not begun before call 0 (the old file is legitimately still there)
            points = list(range(1 if pl.get('preexisting') else 0, ncalls + 1))
            if pl.get('rival_at') is not None:
                # only INTERRUPTED writes are in the statement's scope: the uninterrupted completion of a write that a second writer
                # disturbed is not (HDF5 truncates the file before it fails to lock it - see DESIGN appendix E)
                points = [p for p in points if pl['rival_at'] < p < ncalls]
            if pl['size'] > 1000 and ctx.tier == 'quick':
                points = [p for p in points if p >= ncalls - 8 or p % 3 == 0]
            for cp in points:
                jobs.append((crash_record, (tmp, pl, ncalls, cp, idx), {}))
        crecs = tlc.run_many(jobs, max_parallel=12)
        n, bad = tlc.judge('Judge_C19', crecs)
        for i, why in bad:
            r = crecs[i]
            ctx.report('crash-injection', dict(payload=r['payload'], crash_at=r['crash_at']), r, why,
                       key=f'crash:{r["payload"]["container"]}:{r["payload"]["compression"]}:{"big" if r["payload"]["size"] > 1000 else "small"}:{r["outcome"]}',
                       describe=f'payload={r["payload"]} killed before call {r["crash_at"]}/{r["ncalls"]} -> {r["outcome"]} {r["detail"]}')
        ctx.traces += n
        ctx.evaluations += n
        for r in crecs:
            if 0 < r['crash_at'] < r['ncalls']:
                ctx.nontrivial_keys.add(('crash', core.short_hash([r['payload'], r['crash_at']])))
        ctx.families.append(dict(name='crash-injection', records=n, rejected=len(bad), judge='Judge_C19',
                                 outcomes={o: sum(1 for r in crecs if r['outcome'] == o) for o in {r['outcome'] for r in crecs}}))
        ctx.add_samples([dict(family='crash-injection', record=crecs[len(crecs) // 2])], limit=1)
        ctx.rule_parts.append('[writer-trace] storage-call sequences of real dump_signatures runs (both write paths, 1-6 signatures, with/without compression, onto a fresh path and onto a path already holding another signature file, '
                              'compression, empty signatures) replayed through the SigStore library model; [crash-injection] a writer subprocess '
                              'killed with os._exit immediately before each of its storage calls (every crash point for small payloads; every third '
                              'plus the last eight for multi-megabyte payloads in quick; one payload of 72 MB, beyond 2^26 bytes), the leftover file loaded with load_signatures; '
                              'non-trivial = a crash strictly inside the write')
        ctx.exhaustive_all = ctx.tier == 'thorough'
    finally:
        shutil.rmtree(tmp, ignore_errors=True)
    ctx.assumptions += ['EvictionPossible = FALSE: the metadata of a .gs file (a few KB) stays in the library cache until flush/close',
                        'crashes inside a storage-library call are outside the property and are not injected',
                        'os._exit before the N-th call = SIGKILL at that point for user-space buffers (no interpreter / library cleanup)']


def replay(ctx, scen):
    tmp = tlc.mktmp('c19r-')
    try:
        if scen['family'] == 'crash-injection':
            pl = scen['inputs']['payload']
            calls = record_trace(tmp, pl, 0)
            r = crash_record(tmp, pl, len(calls), scen['inputs']['crash_at'], 0)
            n, bad = tlc.judge('Judge_C19', [r])
            return not bad
        calls = record_trace(tmp, scen['inputs'], 0)
        n, bad = tlc.judge('Trace_SigStore', [dict(calls=calls)], cfg='Trace_SigStore.cfg', shards=1)
        return not bad
    finally:
        shutil.rmtree(tmp, ignore_errors=True)
