"""C09 - the closest-genomes list is the deterministic (distance, reference order) prefix."""
import itertools
import json
import os
import shutil
import subprocess
import sys
from types import SimpleNamespace

from .. import core, tlc
from ..taxo import World, rank_of

# sets of CPU features NumPy is told not to dispatch on (only those this CPU has can be toggled)
AVX512 = ('AVX512F AVX512CD AVX512VL AVX512BW AVX512DQ AVX512VNNI AVX512IFMA AVX512VBMI AVX512VBMI2 AVX512BITALG AVX512FP16 '
          'AVX512VPOPCNTDQ AVX512_SKX AVX512_CLX AVX512_CNL AVX512_ICL AVX512_SPR')
CPU_CONFIGS = {'default': '', 'no-avx512': AVX512, 'no-avx512-avx2': AVX512 + ' AVX2 FMA3'}


def list_record(inp):
    from gambit.query import get_result_item, QueryParams, QueryInput
    w = World(inp['parent'], inp['thr'], gt=inp['gt'], values=inp.get('values'))
    r = dict(op='item', parent=inp['parent'], thr=inp['thr'], gt=inp['gt'], d=inp['d'], N=inp['N'], cfg=inp.get('cfg', 'default'),
             ok=False, err='', list=[], closest_g=0)
    try:
        db = SimpleNamespace(genomes=w.genomes)
        item = get_result_item(db, QueryParams(report_closest=inp['N'], classify_strict=inp.get('strict', False)),
                               w.dists(inp['d']), QueryInput('q'))
        item2 = get_result_item(db, QueryParams(report_closest=inp['N']), w.dists(inp['d']), QueryInput('q'))
        r['list'] = [dict(g=w.g(m.genome), d=w.rank_of(m.distance), mt=w.t(m.matched_taxon)) for m in item.closest_genomes]
        again = [w.g(m.genome) for m in item2.closest_genomes]
        r['closest_g'] = w.g(item.classifier_result.closest_match.genome)
        r['ok'] = again == [x['g'] for x in r['list']]
        if not r['ok']:
            r['err'] = 'differs-between-two-runs'
    except Exception as e:
        r['err'] = type(e).__name__
    return r


def worker_main():
    inputs = json.load(sys.stdin)
    json.dump([list_record(i) for i in inputs], sys.stdout)


def run_in_subprocess(inputs, cfg):
    env = dict(os.environ, PYTHONHASHSEED='0')
    if CPU_CONFIGS[cfg]:
        env['NPY_DISABLE_CPU_FEATURES'] = CPU_CONFIGS[cfg]
    else:
        env.pop('NPY_DISABLE_CPU_FEATURES', None)
    p = subprocess.run(['/venv/bin/python', '-W', 'ignore', '-m', 'harness.props.c09', '--worker'], cwd=tlc.VERIF, env=env,
                       input=json.dumps(inputs), stdout=subprocess.PIPE, stderr=subprocess.PIPE, text=True)
    if p.returncode != 0:
        raise tlc.MachineryError(f'C09 worker failed under {cfg}: {p.stderr[-2000:]}')
    return json.loads(p.stdout)


class Fam(core.Family):
    judge = 'Judge_C09'
    procs = 0

    def execute(self, inp):
        return list_record(inp)

    def corrupt(self, rec):
        if len(rec['list']) >= 2:
            rec['list'][0], rec['list'][1] = rec['list'][1], rec['list'][0]
            rec['closest_g'] = rec['list'][0]['g']
            return rec
        rec['list'] = []
        return rec

    def nontrivial(self, inp, rec):
        # non-trivial: a distance tie inside or at the edge of the reported prefix
        d = sorted(inp['d'])
        n = min(inp['N'], len(d))
        pre = d[:n + 1]
        return core.short_hash([inp['d'], inp['N'], inp['gt'], inp['thr']]) if len(set(pre)) < len(pre) else None

    def describe(self, inp, rec):
        return f"d={inp['d']} N={inp['N']} cfg={inp.get('cfg')} got={[x['g'] for x in rec['list']]}"[:300]


def lineage_world(rng, ng):
    n = rng.randint(1, 5)
    parent = [0] + [rng.randint(0, t - 1) for t in range(2, n + 1)]
    thr = [rng.choice([-1, 0, 1, 2, 3]) for _ in range(n)]
    gt = [rng.randint(1, n) for _ in range(ng)]
    return parent, thr, gt


class SmallExhaustive(Fam):
    name = 'all-small-vectors'
    exhaustive = True

    def inputs(self, ctx):
        L = 5 if ctx.tier == 'quick' else 6
        self.rule = (f'every distance-rank vector of length 1..{L} over 3 ranks x N in {{1,2,3,len,len+1,10}}; one taxon with a '
                     f'threshold at rank 1; non-trivial = a tie inside or at the edge of the reported prefix')
        for n in range(1, L + 1):
            for d in itertools.product(range(3), repeat=n):
                for N in sorted({1, 2, 3, n, n + 1, 10}):
                    yield dict(parent=[0, 1], thr=[2, 1], gt=[1 + (i % 2) for i in range(n)], d=list(d), N=N)


class TiesLong(Fam):
    name = 'heavy-ties-long'
    exhaustive = False
    cfg_name = 'default'

    def inputs(self, ctx):
        n_sc = 400 if ctx.tier == 'quick' else 4000
        self.rule = (f'{n_sc} seeded vectors of length 1..64 (and 200..300) with heavy ties (2-4 distinct values, blocks of identical '
                     f'genomes, minimum repeated at the end) x N in {{1,3,10,>n}}, crossing NumPy\'s small-array and SIMD sort '
                     f'thresholds; run in-process and in subprocesses with AVX512 / AVX512+AVX2 dispatch disabled')
        rng = ctx.rng.__class__(ctx.seed + 9)
        for i in range(n_sc):
            n = rng.randint(1, 64) if i % 10 else rng.randint(200, 300)
            vals = rng.sample(range(0, 8), rng.randint(1, 4))
            mode = i % 4
            if mode == 0:
                d = [rng.choice(vals) for _ in range(n)]
            elif mode == 1:
                d = sorted((rng.choice(vals) for _ in range(n)), reverse=True)
            elif mode == 2:
                d = [max(vals)] * n
                for _ in range(rng.randint(1, max(1, n // 3))):
                    d[rng.randrange(n)] = min(vals)
            else:
                d = [vals[(k * len(vals)) // n] for k in range(n)][::-1]
            parent, thr, gt = lineage_world(rng, n)
            for N in (1, 3, 10, n + 5):
                yield dict(parent=parent, thr=thr, gt=gt, d=d, N=N, strict=(i % 5 == 0))


def near_values():
    """float32 values lying closer together than any printing precision: neighbours one ulp apart and pairs less than 5e-7 apart"""
    import numpy as np
    vals = set()
    for b in (0.088282, 0.25, 0.5000001, 0.9999999):
        for delta in (-4e-7, -1e-7, 0.0, 3e-7):
            x = np.float32(b + delta)
            vals |= {float(x), float(np.nextafter(x, np.float32(1), dtype=np.float32))}
    return sorted(v for v in vals if 0 <= v <= 1)


class NearTies(Fam):
    """distances that are unequal but agree to six or more decimals: the order is decided by the exact float32 values"""
    name = 'near-ties'
    exhaustive = False

    def inputs(self, ctx):
        n_sc = 600 if ctx.tier == 'quick' else 6000
        vals = near_values()
        self.rule = (f'{n_sc} seeded vectors of length 2..9 over {len(vals)} float32 values that differ by one ulp or by less than 5e-7 (around 0.088282, 0.25, 0.5, 1): '
                     f'non-decreasing order by exact value, ties by reference order; thresholds among the same values')
        rng = ctx.rng.__class__(ctx.seed + 21)
        for i in range(n_sc):
            n = rng.randint(2, 9)
            anchor = rng.randrange(len(vals))
            near = [x for x in range(len(vals)) if abs(x - anchor) <= 4]
            d = [rng.choice(near) for _ in range(n)]
            if i % 3 == 0:
                d = sorted(d, reverse=True)                # the slightly farther one comes earlier in reference order
            parent, thr, gt = lineage_world(rng, n)
            thr = [(-1 if t < 0 else rng.choice(near)) for t in thr]
            for N in (1, 2, n, n + 3):
                yield dict(parent=parent, thr=thr, gt=gt, d=d, N=N, values=vals, strict=(i % 4 == 0))

    def nontrivial(self, inp, rec):
        return core.short_hash([inp['d'], inp['N'], inp['gt'], inp['thr']]) if len(set(inp['d'])) > 1 else None


class DbLayouts(Fam):
    """The list as `query()` produces it against real databases: every placement of unused signatures (in front of, behind, between
    the used ones), permuted signature order, chunk sizes, list lengths.  TLC recomputes the distance vector from the sequences."""
    name = 'database-layouts'
    exhaustive = False
    procs = 0
    rule = ('tiny database (11 genomes incl. identical ones and two without any k-mer; one probe without any k-mer) written with the signature file in identity / reversed / rotated / shuffled order and '
            'unused signatures in front, behind, both, in the middle or absent (25 layouts, alternating between two editions of the taxonomy with the same primary keys and other thresholds / one moved species, all opened in one process) x 4 probes x chunk sizes {none,1,2,4,5,n-1,n,1000} (freed float32 blocks NaN-filled before every query) x N in {1,3,n+2}: '
            'one record per (layout, probe) holding all runs; TLC recomputes the distances from the nucleotide sequences')

    def inputs(self, ctx):
        import random
        from .. import world as W
        w = W.default_world(ctx.seed)
        # two reference genomes without a single k-mer (adjacent in the genome set), and a query without one: their distance is 0
        for nm in ('empty_a', 'empty_b'):
            i_ = len(w['genomes']) + 1
            w['genomes'].append(dict(key=nm, desc=f'genome {nm}', taxon=6, contigs=['GGGGCCCCGGCC'], genbank_acc=f'GCA_{i_:04d}.1', refseq_acc=f'GCF_{i_:04d}.1', ncbi_id=5000 + i_))
        n = len(w['genomes'])
        rng = random.Random(ctx.seed + 4)
        orders = dict(identity=list(range(n)), reversed=list(range(n))[::-1], rotated=list(range(3, n)) + [0, 1, 2], empties_first=[n - 2, n - 1] + list(range(n - 2)), shuffled=rng.sample(range(n), n))
        extras = dict(none=[], front=[0], back=[n], both=[0, n + 1], middle=[4])
        probes = W.query_pool(w, seed=ctx.seed + 5)
        # the databases are opened one after the other in ONE process; every second one is a re-tuned edition of the same taxonomy (same
        # primary keys, other thresholds, one species moved to the other genus): nothing learnt from one database may be applied to the next
        import copy
        w2 = copy.deepcopy(w)
        for t, thr in zip(w2['taxa'], (0.875, 0.125, 0.5, 0.0625, 0.25, 0.1875)):
            t['thr'] = thr
        w2['taxa'][2]['parent'] = 5
        w2['version'] = '2.0'
        turn = 0
        for on, order in orders.items():
            for en, pos in extras.items():
                turn += 1
                yield dict(world=(w, w2)[turn % 2], order=order, extra=[dict(id=f'unused_{i}', contigs=[W.rand_seq(rng, 150)], pos=p) for i, p in enumerate(pos)],
                           probes=[p['contigs'] for p in probes[:3 if ctx.tier == 'quick' else len(probes)]] + [['CCGGGGCC']], layout=f'{on}/{en}/edition{1 + turn % 2}')

    def execute(self, inp):
        raise NotImplementedError        # executed in bulk, see db_layout_records

    def corrupt(self, rec):
        run = rec['runs'][-1]
        if len(run['list']) >= 2:
            run['list'][0], run['list'][1] = run['list'][1], run['list'][0]
            run['closest_g'] = run['list'][0]['g']
            run['json'] = [x['g'] for x in run['list']]
            run['csv_g'] = run['closest_g']
        else:
            run['list'] = []
        return rec

    def nontrivial(self, inp, rec):
        return core.short_hash([inp['layout'], rec['probe']])

    def describe(self, inp, rec):
        return f"layout={inp['layout']} probe#{rec['pi']} runs={[(r['chunk'], r['N'], [x['g'] for x in r['list']]) for r in rec['runs']]}"[:400]


def db_layout_records(inp, tmp):
    from gambit.db import ReferenceDatabase
    from gambit.kmers import KmerSpec
    from gambit.query import query, QueryParams
    from gambit.sigs import SignatureArray
    from ..enc import blist, f32_bits
    from .. import world as W
    w = inp['world']
    d = os.path.join(tmp, 'db_' + core.short_hash([inp['order'], [e['pos'] for e in inp['extra']]]))
    W.build_db(d, w, sig_order=inp['order'], extra_sigs=inp['extra'])
    # reference order = order of db.genomes = order of the genomes' signatures in the signature file (unused signatures skipped)
    ordered = [w['genomes'][i] for i in inp['order']]
    dbt = W.world_for_tlc(dict(w, genomes=ordered))
    gidx = {g['key']: i + 1 for i, g in enumerate(ordered)}
    by_desc = {g['desc']: i + 1 for i, g in enumerate(ordered)}
    n = len(w['genomes'])
    recs = []
    db = ReferenceDatabase.load_from_dir(d)
    try:
        ks = KmerSpec(*w['kspec'])
        for pi, contigs in enumerate(inp['probes']):
            rec = dict(op='db', db=dbt, probe=[blist(c.encode()) for c in contigs], pi=pi, layout=inp['layout'], runs=[])
            sigs = SignatureArray([W.real_signature(w['kspec'], contigs)], ks)
            for chunk in (None, 1, 2, 4, 5, n - 1, n, 1000):
                for N in (1, 3, n + 2):
                    run = dict(chunk=-1 if chunk is None else chunk, N=N, ok=False, err='', list=[], closest_g=0, json=[], csv_g=0)
                    try:
                        # freed float32 blocks of the size of a distance table are filled with NaN first: a cell the computation never writes
                        # (np.empty hands such blocks out again) then shows as NaN instead of the stale, correct value of the previous run
                        import numpy as _np
                        junk = [_np.full((len(sigs), n), _np.nan, dtype=_np.float32) for _ in range(8)]
                        del junk
                        res = query(db, sigs, QueryParams(report_closest=N, chunksize=chunk))
                        it = res.items[0]
                        run['list'] = [dict(g=gidx[m.genome.key], d=f32_bits(m.distance), mt=0 if m.matched_taxon is None else int(m.matched_taxon.key[3:]))
                                       for m in it.closest_genomes]
                        run['closest_g'] = gidx[it.classifier_result.closest_match.genome.key]
                        # the same result through the JSON and CSV exporters
                        import csv as _csv, io as _io, json as _json
                        from gambit.results import JSONResultsExporter, CSVResultsExporter
                        buf = _io.StringIO()
                        JSONResultsExporter().export(buf, res)
                        run['json'] = [gidx[m['genome']['key']] for m in _json.loads(buf.getvalue())['items'][0]['closest_genomes']]
                        buf = _io.StringIO(newline='')
                        CSVResultsExporter().export(buf, res)
                        row = list(_csv.reader(_io.StringIO(buf.getvalue(), newline='')))[1]
                        run['csv_g'] = by_desc.get(row[6], 0)
                        run['ok'] = True
                    except Exception as e:
                        run['err'] = f'{type(e).__name__}: {e}'[:120]
                    rec['runs'].append(run)
            recs.append(rec)
    finally:
        db.session.close() if hasattr(db, 'session') else None
        shutil.rmtree(d, ignore_errors=True)
    return recs


def run_db_layouts(ctx):
    fam = DbLayouts()
    tmp = tlc.mktmp('c09-')
    try:
        flat_in, flat_rec = [], []
        for inp in fam.inputs(ctx):
            for rec in db_layout_records(inp, tmp):
                flat_in.append(dict(layout=inp['layout'], pi=rec['pi']))
                flat_rec.append(rec)
        fam.execute = lambda i, _m={core.canon(a): b for a, b in zip(flat_in, flat_rec)}: _m[core.canon(i)]
        core.run_family(ctx, fam, inputs=flat_in)
    finally:
        shutil.rmtree(tmp, ignore_errors=True)


FAMILIES = [SmallExhaustive, TiesLong, NearTies]


def run(ctx):
    ctx.mc('ClosestAlgo', 'MC_ClosestAlgo.cfg', require_actions=['Outer', 'Inner'], workers=8,
           overrides=dict(MaxN=4 if ctx.tier == 'quick' else 5),
           note='stable sort prefix == (distance, reference order) prefix; first entry == first index of the minimum')
    ctx.mc('ClosestAlgo', 'MC_ClosestAlgo.cfg', expect='Correct', overrides=dict(MaxN=3, Stable='FALSE'),
           note='negative control: an unstable sort breaks ties against reference order')
    core.run_family(ctx, SmallExhaustive())
    fam = TiesLong()
    inputs = list(fam.inputs(ctx))
    core.run_family(ctx, fam, inputs=inputs)
    # the same scenarios under other CPU-dispatch settings, each in a fresh interpreter (NumPy reads the variable at import)
    for cfg in ('no-avx512', 'no-avx512-avx2'):
        sub = [dict(i, cfg=cfg) for i in inputs]

        class Sub(TiesLong):
            name = f'heavy-ties-long[{cfg}]'
            rule = ''

            def __init__(self, cfg=cfg):
                self._cfg = cfg

        f2 = Sub()
        chunks = [sub[k::8] for k in range(8)]
        recs = tlc.run_many([(run_in_subprocess, (c, cfg), {}) for c in chunks if c], max_parallel=8)
        flat_in = [x for c in chunks if c for x in c]
        flat_rec = [r for rr in recs for r in rr]
        f2.execute = lambda inp, _m=dict(zip(map(core.canon, flat_in), flat_rec)): _m[core.canon(inp)]
        core.run_family(ctx, f2, inputs=flat_in)
    core.run_family(ctx, NearTies())
    run_db_layouts(ctx)
    ctx.assumptions += ['only the instruction sets of this CPU can be toggled (NPY_DISABLE_CPU_FEATURES)',
                        'thread count and chunk size act before get_result_item (distance matrix); their effect on the list is '
                        'covered by the database-layouts family (chunk size) and end-to-end by the C08 check']


def replay(ctx, scen):
    if scen.get('family') == 'database-layouts':
        return core.RERUN
    inp = scen['inputs']
    cfg = inp.get('cfg', 'default')
    rec = run_in_subprocess([inp], cfg)[0]
    n, bad = tlc.judge('Judge_C09', [rec])
    return not bad


if __name__ == '__main__':
    if '--worker' in sys.argv:
        worker_main()
