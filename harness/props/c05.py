"""C05 - bulk and parallel distance computations agree bit-for-bit with the pairwise one."""
import itertools
import os
import shutil

import numpy as np

from gambit.kmers import KmerSpec
from gambit.metric import jaccarddist, jaccarddist_array, jaccarddist_matrix, jaccarddist_pairwise
from gambit.sigs import SignatureArray, SignatureList, dump_signatures, load_signatures
from gambit._cython.threads import omp_set_num_threads, omp_get_max_threads
from .. import core, tlc
from ..enc import f32_bits, ranks

_H5 = {}
_TMP = []


def bits(x):
    b = f32_bits(x)
    return b if b < 2 ** 31 and float(np.float32(x)) == float(x) else -1


def container(kind, arrs, dtype):
    ks = KmerSpec(16, 'ATG') if np.dtype(dtype).itemsize > 2 else KmerSpec(8, 'ATG')
    arrs = [np.asarray(a, dtype=dtype) for a in arrs]
    if kind == 'array':
        return SignatureArray(arrs, ks, dtype=np.dtype(dtype))
    if kind == 'list':
        return SignatureList(arrs, ks, dtype=np.dtype(dtype))
    if kind == 'plain':
        return list(arrs)
    if kind == 'plain-own':
        # a plain list in which every array has ITS OWN smallest integer type (narrow ones first, wider ones later)
        own = lambda a: np.asarray(a, dtype=('u2' if (len(a) == 0 or int(max(a)) < 65536) else 'u4' if int(max(a)) < 2 ** 32 else 'u8'))
        return [own(a) for a in arrs]
    if kind == 'array32':
        base = SignatureArray(arrs, ks, dtype=np.dtype(dtype))
        return SignatureArray.from_arrays(base.values, base.bounds.astype(np.int32), ks)         # bounds not in the platform integer type
    if kind == 'view':
        pad = [np.asarray([1, 2, 3], dtype=dtype)]
        full = SignatureArray(pad + arrs + pad, ks, dtype=np.dtype(dtype))
        return full[1:len(arrs) + 1]                 # contiguous slice: values is a view into a larger array
    if kind == 'window':
        # a zero-copy window into a larger collection: the values array is shared and bounds[0] != 0
        pad = [np.asarray([1, 2, 3], dtype=dtype), np.asarray([4], dtype=dtype)]
        full = SignatureArray(pad + arrs + pad, ks, dtype=np.dtype(dtype))
        return SignatureArray.from_arrays(full.values, full.bounds[2:len(arrs) + 3], ks)
    if kind == 'hdf5':
        key = core.canon([[list(map(int, a)) for a in arrs], str(dtype)])
        if key not in _H5:
            if not _TMP:
                _TMP.append(tlc.mktmp('c05-'))
            p = os.path.join(_TMP[0], f'r{len(_H5)}.gs')
            dump_signatures(p, SignatureArray(arrs, ks, dtype=np.dtype(dtype)))
            _H5[key] = load_signatures(p)
        return _H5[key]
    raise ValueError(kind)


def bulk_record(inp):
    pool = inp['pool']               # list of sorted int lists
    qd, rd = inp['qdtype'], inp['rdtype']
    rk = ranks(*pool) if pool else []
    r = dict(op=inp['op'], sets=rk, q=inp['q'], r=inp['r'], idx=inp['idx'] if inp['idx'] is not None else [], has_idx=inp['idx'] is not None,
             pair=[], out=[], ok=False, err='', buffer_ok=True)
    try:
        qa = [np.asarray(pool[i - 1], dtype=qd) for i in range(1, len(pool) + 1)]
        fits = lambda m, dt: (not m) or max(m) <= int(np.iinfo(np.dtype(dt)).max)
        ra = [np.asarray(pool[i - 1], dtype=rd) if fits(pool[i - 1], rd) else None for i in range(1, len(pool) + 1)]
        omp_set_num_threads(inp['threads'])
        # the two-signature distance for every pool pair (query dtype on the left, reference dtype on the right, as in the bulk call)
        r['pair'] = [[bits(jaccarddist(qa[a], ra[b])) if ra[b] is not None else -2 for b in range(len(pool))] for a in range(len(pool))]
        refs = container(inp['cont'], [pool[i - 1] for i in inp['r']], rd)
        queries = [qa[i - 1] for i in inp['q']]
        if inp.get('hist'):
            # the reference collection is a long-lived mutable list: it is used for bulk calls, changed in place, used again ...; the
            # record holds the final call and the members the list then has (tracked with a plain python list)
            model = list(inp['r'])
            warm = lambda: (len(refs) and jaccarddist_array(qa[3], refs), jaccarddist_matrix(qa[3:5], refs), len(refs) > 1 and jaccarddist_pairwise(refs))
            for step in inp['hist']:
                warm()
                kind = step['op']
                mk = lambda m: np.asarray(pool[m - 1], dtype=rd)
                if kind == 'setitem':
                    refs[step['i']] = mk(step['v']); model[step['i']] = step['v']
                elif kind == 'delitem':
                    del refs[step['i']]; del model[step['i']]
                elif kind == 'insert':
                    refs.insert(step['i'], mk(step['v'])); model.insert(step['i'], step['v'])
                elif kind == 'append':
                    refs.append(mk(step['v'])); model.append(step['v'])
                elif kind == 'reverse':
                    refs.reverse(); model.reverse()
                elif kind == 'pop':
                    refs.pop(step['i']); model.pop(step['i'])
            r['r0'] = list(inp['r']); r['hist'] = inp['hist']          # TLC folds SigIndex!Effect over the history and compares with `model`
            r['r'] = model
            inp = dict(inp, r=model)
        if inp.get('qsrc') == 'refs-slice':
            # the queries are a contiguous slice of the reference collection itself (an earlier read of the same object that is still
            # alive while later chunks are read), and one more slice is read and dropped in between
            queries = refs[0:len(inp['q'])]
            _ = refs[len(inp['r']) - 1:len(inp['r'])]
            r['q'] = list(inp['r'][:len(inp['q'])])
        idx = inp['idx']
        if idx is not None and inp.get('idx_as') == 'array':
            idx = np.asarray(idx, dtype=np.intp)
        ncols = len(inp['r']) if inp['idx'] is None else len(inp['idx'])
        outbuf = None
        mode = inp.get('outbuf', 'none')
        if inp['op'] == 'array':
            if mode == 'given':
                outbuf = np.full(len(inp['r']), np.nan, dtype=np.float32)
            elif mode == 'strided':
                base = np.full(2 * len(inp['r']), np.nan, dtype=np.float32)
                outbuf = base[::2]
            res = jaccarddist_array(queries[0], refs, out=outbuf)
            mat = np.asarray(res)[None, :]
        elif inp['op'] == 'matrix':
            if mode == 'given':
                outbuf = np.full((len(queries), ncols), np.nan, dtype=np.float32)
            elif mode == 'strided':
                base = np.full((len(queries), 2 * ncols), np.nan, dtype=np.float32)
                outbuf = base[:, ::2]
            res = jaccarddist_matrix(queries, refs, ref_indices=idx, out=outbuf, chunksize=inp['chunk'])
            mat = np.asarray(res)
        else:
            flat = inp['op'] == 'flat'
            n = ncols
            shape = (n * (n - 1) // 2,) if flat else (n, n)
            if mode == 'given':
                outbuf = np.full(shape, np.nan, dtype=np.float32)
            res = jaccarddist_pairwise(refs, indices=idx, flat=flat, out=outbuf)
            mat = np.asarray(res)[None, :] if flat else np.asarray(res)
        if outbuf is not None:
            r['buffer_ok'] = bool(res is outbuf or np.shares_memory(res, outbuf))
            if mode == 'strided':
                r['buffer_ok'] = r['buffer_ok'] and bool(np.isnan(base.reshape(-1)[1::2]).all() if inp['op'] == 'array' else np.isnan(base[:, 1::2]).all())
        r['buffer_ok'] = r['buffer_ok'] and mat.dtype == np.float32
        r['out'] = [[bits(v) for v in row] for row in mat]
        r['ok'] = True
    except Exception as e:
        r['err'] = f'{type(e).__name__}: {e}'[:160]
    return r


class Fam(core.Family):
    judge = 'Judge_C05'

    def execute(self, inp):
        return bulk_record(inp)

    def nontrivial(self, inp, rec):
        # non-trivial: >= 2 columns and the selected references are not all identical signatures
        cols = inp['idx'] if inp['idx'] is not None else list(range(len(inp['r'])))
        members = {core.canon(inp['pool'][inp['r'][c] - 1]) for c in cols} if cols else set()
        return core.short_hash({k: v for k, v in inp.items() if k != 'rep'}) if len(cols) >= 2 and len(members) >= 2 else None

    def corrupt(self, rec):
        if rec['out'] and rec['out'][0]:
            rec['out'][0][-1] = rec['out'][0][-1] + 1 if rec['out'][0][-1] >= 0 else 5
            return rec
        return None

    def describe(self, inp, rec):
        return core.canon({k: v for k, v in inp.items() if k != 'pool'})[:300] + ' ' + rec.get('err', '')


POOLS = {
    # universe small enough that everything fits u2; includes empty, singleton, duplicates of each other
    'basic': [[], [3], [3], [1, 3, 5, 7], [1, 2, 3, 5, 8], [2, 4, 6], [1, 3, 5, 7]],
    # values congruent modulo 2^16 (only representable in wide dtypes): a narrowing cast of the query would collide
    'wrap16': [[0, 5], [65536, 65541], [5, 65536], [0, 5, 65536, 65541], [], [65541], [5], [0]],
}


def index_variants(n, rng, tier):
    v = [None, list(range(n)), list(range(n))[::-1], [0] * 2 if n else [], [n - 1, 0, n - 1] if n else [], []]
    if n >= 4:
        v += [[0, 2, 2, 3], [2, 4 % n, 3, n - 1], [1, 1, 3], [0, 2, 1, 3]]
    for _ in range(2 if tier == 'quick' else 6):
        v.append([rng.randrange(n) for _ in range(rng.randint(1, n + 2))] if n else [])
    return v


class Matrix(Fam):
    name = 'matrix-and-array'
    exhaustive = False

    def inputs(self, ctx):
        reps = 2 if ctx.tier == 'quick' else 10
        self.rule = ('pools of 6-7 signatures (empty, singleton, duplicates) x reference container {SignatureArray (intp and int32 bounds), SignatureList, plain list, plain list of arrays in their own (mixed) integer types, '
                     'HDF5 file, contiguous slice view, zero-copy window with bounds[0] != 0} x dtype pairs (same width, signed/unsigned, query wider than references with values '
                     'congruent mod 2^16) x chunk size {None,1,2,3,n,n+2} x index selections (None, permutations, repeats, non-monotone runs, '
                     'empty, random) x caller-supplied out (none, NaN-filled, strided view) x threads {1,3,16} x repeated runs; '
                     'non-trivial = >= 2 columns over non-identical signatures')
        rng = ctx.rng
        conts = ['array', 'list', 'plain', 'hdf5', 'view', 'array32', 'window', 'plain-own']
        dpairs = [('u2', 'u2'), ('u8', 'u8'), ('i8', 'u4'), ('u2', 'i4')]
        for pname, pool in POOLS.items():
            pairs = dpairs if pname == 'basic' else [('u8', 'u8'), ('u4', 'u4'), ('u8', 'u4'), ('i8', 'u4'), ('u4', 'u2'), ('u8', 'u2')]
            for cont in conts:
                for qd, rd in pairs:
                    rmax = int(np.iinfo(np.dtype(rd)).max)
                    rorder = [i + 1 for i, m in enumerate(pool) if not m or max(m) <= rmax]     # references must fit their integer type
                    n = len(rorder)
                    if cont in ('list', 'hdf5'):
                        rorder = rorder[1:] + rorder[:1]
                    for chunk in [None, 1, 2, 3, n, n + 2]:
                        for idx in index_variants(n, rng, ctx.tier):
                            for threads in (1, 3, 16):
                                if (chunk in (2, n + 2) or threads == 3) and idx is not None and len(idx) > 3 and ctx.tier == 'quick':
                                    continue
                                for rep in range(reps if threads > 1 and idx is None else 1):
                                    yield dict(op='matrix', pool=pool, q=[4, 1, 5, 2][: 2 + (threads % 3)] if pname == 'basic' else [4, 2, 3, 6][: 2 + (threads % 3)], r=rorder, idx=idx, idx_as=('array' if chunk == 3 else 'list'),
                                               qdtype=qd, rdtype=rd, cont=cont, chunk=chunk, threads=threads, rep=rep,
                                               outbuf=['none', 'given', 'strided'][(threads + (chunk or 0)) % 3])
                    if cont in ('hdf5', 'array', 'view', 'window'):
                        for chunk in (None, 1, 2, 3):
                            yield dict(op='matrix', pool=pool, q=[0, 0, 0][: 2 + (chunk or 0) % 2], r=rorder, idx=None, idx_as='list', qdtype=qd, rdtype=rd, cont=cont,
                                       chunk=chunk, threads=1, rep=0, outbuf='none', qsrc='refs-slice')
                    for threads in (1, 2, 16):
                        for ob in ('none', 'given', 'strided'):
                            yield dict(op='array', pool=pool, q=[5] if pname == 'basic' else [4], r=rorder, idx=None, qdtype=qd, rdtype=rd, cont=cont, chunk=None, threads=threads, outbuf=ob)


class Pairwise(Fam):
    name = 'pairwise'
    exhaustive = False

    def inputs(self, ctx):
        self.rule = ('all-pairs in square and condensed form over the same pools/containers/dtypes, with and without explicit indices '
                     '(permutations, repeats), caller-supplied out, threads {1,4,16}')
        rng = ctx.rng
        for pname, pool in POOLS.items():
            n = len(pool)
            for cont in ['array', 'list', 'plain', 'hdf5', 'view', 'window']:
                for dt in (['u2', 'u8', 'i4'] if pname == 'basic' else ['u4', 'i8']):
                    for idx in index_variants(n, rng, 'quick'):
                        for op in ('square', 'flat'):
                            for threads in ((1, 16) if ctx.tier == 'quick' else (1, 4, 16)):
                                yield dict(op=op, pool=pool, q=[], r=list(range(1, n + 1)), idx=idx, idx_as='list', qdtype=dt, rdtype=dt, cont=cont,
                                           chunk=None, threads=threads, outbuf=['none', 'given'][threads % 2])


class MutatedLists(Fam):
    """the reference collection is a LIST OBJECT that lives across calls and is changed in place between them (replace, swap, reverse, insert,
    append, delete, pop), every bulk entry point having been used on it before each change: the final call must describe the list as it is"""
    name = 'mutated-reference-lists'
    exhaustive = False

    def inputs(self, ctx):
        n = 150 if ctx.tier == 'quick' else 1500
        self.rule = (f'{n} seeded histories of 1-5 in-place changes (the actions of spec/SigIndex!Effect: setitem / insert incl. out-of-range positions / append / delitem / pop / reverse; swaps as two setitems) on a SignatureList or plain list of 3-6 pool '
                     'members, all three bulk entry points called on the object before every change; final call = matrix / array / square / flat')
        rng = ctx.rng
        pool = POOLS['basic']
        for t in range(n):
            cont = ('list', 'plain')[t % 2]
            model = [rng.randrange(1, len(pool) + 1) for _ in range(rng.randint(3, 6))]
            r0 = list(model)
            hist = []
            for _ in range(rng.randint(1, 5)):
                kind = rng.choice(['set', 'set', 'swap', 'rev', 'ins', 'app', 'del', 'pop']) if len(model) > 2 else rng.choice(['set', 'ins', 'app'])
                m = rng.randrange(1, len(pool) + 1)
                if kind == 'set':
                    st = [dict(op='setitem', i=rng.randrange(-len(model), len(model)), v=m)]; model[st[0]['i']] = m
                elif kind == 'swap':
                    i, j = rng.randrange(len(model)), rng.randrange(len(model))
                    st = [dict(op='setitem', i=i, v=model[j]), dict(op='setitem', i=j, v=model[i])]; model[i], model[j] = model[j], model[i]
                elif kind == 'rev':
                    st = [dict(op='reverse')]; model.reverse()
                elif kind == 'ins':
                    st = [dict(op='insert', i=rng.randrange(-len(model) - 2, len(model) + 3), v=m)]; model.insert(st[0]['i'], m)
                elif kind == 'app':
                    st = [dict(op='append', v=m)]; model.append(m)
                elif kind == 'del':
                    st = [dict(op='delitem', i=rng.randrange(-len(model), len(model)))]; del model[st[0]['i']]
                else:
                    st = [dict(op='pop', i=-1)]; model.pop()
                hist += st
            op = ('matrix', 'array', 'square', 'flat')[t % 4 if t % 8 < 6 else 1]
            dt = ('u2', 'u8', 'i4')[t % 3]
            yield dict(op=op, pool=pool, q=[4, 5] if op == 'matrix' else [5] if op == 'array' else [], r=r0, hist=hist, idx=None, idx_as='list', qdtype=dt, rdtype=dt,
                       cont=cont, chunk=(None, 2)[t % 2], threads=(1, 16)[t % 2], outbuf='none')

    def nontrivial(self, inp, rec):
        return core.short_hash(inp) if rec.get('ok') and len({core.canon(inp['pool'][m - 1]) for m in rec['r']}) >= 2 and len(rec['r']) >= 2 else None


class ManyRefs(Fam):
    name = 'many-references-parallel'
    exhaustive = False

    def inputs(self, ctx):
        reps = 20 if ctx.tier == 'quick' else 200
        self.rule = (f'{reps} repeated runs of one query against 40 / 5 / 2 references of very different sizes under the dynamic OpenMP '
                     f'schedule with 2..16 threads (also more threads than references)')
        rng = ctx.rng
        for nrefs in (40, 5, 2):
            pool = [sorted(rng.sample(range(200), rng.choice([0, 1, 3, 30, 120]))) for _ in range(nrefs)] + [sorted(rng.sample(range(200), 60))]
            for rep in range(reps):
                yield dict(op='array', pool=pool, q=[nrefs + 1], r=list(range(1, nrefs + 1)), idx=None, qdtype='u2', rdtype='u2', cont='array',
                           chunk=None, threads=[2, 3, 4, 8, 16][rep % 5], outbuf='none', rep=rep)

    def nontrivial(self, inp, rec):
        return core.short_hash(inp)


class LargeN(Fam):
    """reference collections of thousands of signatures (pool members repeated), long index selections, chunk sizes at and next to
    powers of two: size thresholds of bulk code paths"""
    name = 'large-collections'
    exhaustive = False
    procs = 4

    def inputs(self, ctx):
        sizes = [1025, 4100] if ctx.tier == 'quick' else [1025, 4100, 16385, 65537, 70000]
        self.rule = (f'reference collections of {sizes} signatures (12 distinct pool members incl. empty ones, repeated in seeded random order) x container '
                     f'{{SignatureArray, SignatureList, HDF5 file}} x chunk size {{None, 1000, 1024, n-1}} x index selection {{None, reversed, 3000 random}} x threads {{1,16}}; '
                     f'matrix (2-3 queries), one-against-many, and all-pairs (n = 257 quick / 1025 thorough)')
        rng = ctx.rng.__class__(ctx.seed + 55)
        pool = [[], [3], [1, 3, 5, 7], [1, 2, 3, 5, 8], [2, 4, 6], [1, 3, 5, 7], list(range(0, 60, 2)), list(range(0, 60, 3)), [], [59], list(range(60)), [0, 59]]
        for n in sizes:
            rorder = [rng.randint(1, len(pool)) for _ in range(n)]
            for ci, cont in enumerate(['array', 'list', 'hdf5']):
                for chunk in (None, 1000, 1024, n - 1):
                    for ii, idx in enumerate((None, list(range(n))[::-1], [rng.randrange(n) for _ in range(3000)])):
                        if (ci + ii + (chunk or 0)) % 2 and ctx.tier == 'quick':
                            continue
                        yield dict(op='matrix', pool=pool, q=[3, 7, 1][: 2 + ii % 2], r=rorder, idx=idx, idx_as=('array' if ii == 2 else 'list'), qdtype='u2', rdtype=['u2', 'u4', 'i8'][ci],
                                   cont=cont, chunk=chunk, threads=[1, 16][(ci + ii) % 2], outbuf='none')
                yield dict(op='array', pool=pool, q=[4], r=rorder, idx=None, qdtype='u4', rdtype='u2', cont=cont, chunk=None, threads=16, outbuf='given')
            if n <= 1025:
                m = 257 if ctx.tier == 'quick' else 1025
                for cont in ('array', 'list'):
                    for op in ('square', 'flat'):
                        yield dict(op=op, pool=pool, q=[], r=rorder[:m], idx=None, idx_as='list', qdtype='u2', rdtype='u2', cont=cont, chunk=None, threads=16, outbuf='none')

    def nontrivial(self, inp, rec):
        return core.short_hash({k: v for k, v in inp.items() if k not in ('pool', 'r', 'idx')} | dict(n=len(inp['r']), ni=-1 if inp['idx'] is None else len(inp['idx'])))

    def describe(self, inp, rec):
        return core.canon({k: v for k, v in inp.items() if k not in ('pool', 'r', 'idx')} | dict(n=len(inp['r'])))[:300] + ' ' + rec.get('err', '')


FAMILIES = [Matrix, Pairwise, MutatedLists, ManyRefs, LargeN]


def run(ctx):
    big = ctx.tier == 'thorough'
    ctx.mc('BulkDist', 'MC_BulkDist.cfg', require_actions=['TakeChunk', 'ArrayCall', 'Row'], workers=8,
           overrides=dict(MaxQ=2, MaxR=4 if not big else 5, MaxSel=3 if not big else 4, MaxChunk=4 if not big else 5),
           note='chunk loop / pairwise rows: every cell holds the token of its own (query, selected reference) pair, written once; meter total')
    ctx.mc('OmpLoop', 'MC_OmpLoop.cfg', require_actions=['Grab', 'ReadBegin', 'ReadEnd', 'Compute', 'Write'], workers=8,
           overrides=dict(N=3 if not big else 4, T=2 if not big else 3),
           note='prange with dynamic schedule, private begin/end: all interleavings; each cell written once with its own value')
    ctx.mc('OmpLoop', 'MC_OmpLoop.cfg', expect='WriteOnce', overrides=dict(SharedTemps='TRUE'),
           note='negative control: shared begin/end let a cell be computed from another iteration')
    ctx.mc('JaccardMerge', 'MC_JaccardMerge.cfg', overrides=dict(U=4), note='the per-cell kernel (shared with C02)')
    prev = omp_get_max_threads()
    try:
        for F in FAMILIES:
            core.run_family(ctx, F())
    finally:
        omp_set_num_threads(prev)
        for h in _H5.values():
            try:
                h.close()
            except Exception:
                pass
        _H5.clear()
        for t in _TMP:
            shutil.rmtree(t, ignore_errors=True)
        _TMP.clear()
    ctx.assumptions += ['the OpenMP schedule can be neither chosen nor observed without recompiling the Cython module: race freedom is argued '
                        'by the OmpLoop model and bound to the code only through repeated runs at 1..16 threads',
                        'float32 cells are shipped as their bit patterns; signature elements as ranks']


def replay(ctx, scen):
    if scen['family'] not in {F.name for F in FAMILIES}:
        return core.RERUN            # reported outside a judged family: replay by re-running the check
    fam = {F.name: F for F in FAMILIES}[scen['family']]()
    try:
        recs, bad = core.run_family(ctx, fam, inputs=[scen['inputs']])
    finally:
        for t in _TMP:
            shutil.rmtree(t, ignore_errors=True)
    return not bad
