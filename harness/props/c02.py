"""C02 - Jaccard distance = |A xor B| / |A or B| correctly rounded to float32; index = 1 - distance."""
import itertools

import numpy as np

from gambit.metric import jaccard, jaccarddist
from .. import core
from ..enc import f32_fields, fix47, ranks

DTYPES = ['u2', 'u4', 'u8', 'i2', 'i4', 'i8']


def dmax(dt):
    return int(np.iinfo(np.dtype(dt)).max)


def call_record(a_vals, b_vals, dta, dtb):
    ra, rb = ranks(a_vals, b_vals)
    r = dict(op='set', a=ra, b=rb, dta=dta, dtb=dtb, ok=False, err='')
    z = f32_fields(0.0)
    r.update(dab=z, dba=z, jab=fix47(0.0), jba=fix47(0.0))
    try:
        a = np.array(a_vals, dtype=np.dtype(dta))
        b = np.array(b_vals, dtype=np.dtype(dtb))
        layout = (len(a_vals) + 2 * len(b_vals)) % 4
        if layout == 1 and len(a):
            wide = np.zeros(2 * len(a), dtype=a.dtype); wide[::2] = a; a = wide[::2]              # strided view
        elif layout == 2 and len(b):
            rev = np.ascontiguousarray(b[::-1]); b = rev[::-1]                                    # negative stride
        elif layout == 3 and len(a):
            a = np.asfortranarray(np.stack([a, a], axis=1))[:, 0]                                 # column of a Fortran-ordered matrix
        assert [int(x) for x in a] == list(a_vals) and [int(x) for x in b] == list(b_vals)
        ca, cb = a.copy(), b.copy()
        r['dab'] = f32_fields(jaccarddist(a, b))
        r['dba'] = f32_fields(jaccarddist(b, a))
        r['jab'] = fix47(jaccard(a, b))
        r['jba'] = fix47(jaccard(b, a))
        r['ok'] = bool((a == ca).all() and (b == cb).all())
        if not r['ok']:
            r['err'] = 'inputs-modified'
    except Exception as e:
        r['err'] = f'{type(e).__name__}'
    return r


class Fam(core.Family):
    judge = 'Judge_C02'
    procs = 16

    def execute(self, inp):
        return call_record(inp['a'], inp['b'], inp['dta'], inp['dtb'])

    def nontrivial(self, inp, rec):
        # non-trivial: both sets non-empty, neither equal nor disjoint (the merge takes both kinds of steps)
        A, B = set(rec['a']), set(rec['b'])
        return core.short_hash(inp) if (A and B and A != B and (A & B)) else None

    def corrupt(self, rec):
        f = rec['dab']
        if f['z']:
            rec['dab'] = dict(z=False, e=-1, m=8388608, bad='')
        else:
            f['m'] = f['m'] + 1 if f['m'] < 16777215 else f['m'] - 1     # one ulp off
        return rec

    def describe(self, inp, rec):
        return f"dtypes={inp['dta']},{inp['dtb']} |a|={len(inp['a'])} |b|={len(inp['b'])}"


class ExhaustiveSubsets(Fam):
    name = 'all-subset-pairs'
    exhaustive = True

    def inputs(self, ctx):
        U = 4 if ctx.tier == 'quick' else 6
        self.rule = (f'every ordered pair of subsets of a {U}-element universe x all 6x6 dtype pairs x placements of the '
                     f'universe at the bottom, at the top of the narrower integer range and straddling it (elements above '
                     f'the narrow maximum only in the wider array); contiguous, strided, negatively strided and column-view arrays; both argument orders and both functions per record; '
                     f'non-trivial = overlapping, unequal, non-empty sets')
        subsets = [[i for i in range(U) if (m >> i) & 1] for m in range(1 << U)]
        for dta, dtb in itertools.product(DTYPES, DTYPES):
            lo = min(dmax(dta), dmax(dtb))
            places = {'bottom': list(range(U)), 'top': [lo - U + 1 + i for i in range(U)]}
            if dmax(dta) != dmax(dtb):
                places['straddle'] = [lo - (U // 2 - 1) + i for i in range(U)]
            wa, wb = np.dtype(dta).itemsize, np.dtype(dtb).itemsize
            if wa != wb:
                # values congruent modulo 2^(narrow width): a silent narrowing cast would make them collide
                mod = 1 << (8 * min(wa, wb))
                small = [0, lo] if U == 4 else [0, 1, lo]
                places['wrap'] = small + [mod + v for v in small]
            hi_ok_a, hi_ok_b = dmax(dta), dmax(dtb)
            for pname, vals in places.items():
                for sa in subsets:
                    av = [vals[i] for i in sa]
                    if av and av[-1] > hi_ok_a:
                        continue
                    for sb in subsets:
                        bv = [vals[i] for i in sb]
                        if bv and bv[-1] > hi_ok_b:
                            continue
                        yield dict(a=av, b=bv, dta=dta, dtb=dtb, place=pname)


class ByteOrder(Fam):
    """arrays in non-native byte order: the functions may refuse them (ValueError) but must never report a wrong value"""
    name = 'non-native-byte-order'
    judge = 'Judge_C02'
    exhaustive = True
    rule = ('pairs of sets with values >= 256 stored big-endian (>i2 >u2 >i4 >u4 >i8 >u8) on either side: a refusal is accepted, a reported '
            'value must be the correctly rounded ratio')

    def inputs(self, ctx):
        sets = [[1, 300, 1000], [300, 1000, 30000], [2, 257, 258, 1000], [256], []]
        for dta in DTYPES:
            for dtb in DTYPES:
                for swap in ('a', 'b', 'ab'):
                    for A in sets:
                        for B in sets:
                            yield dict(a=A, b=B, dta=dta, dtb=dtb, swap=swap)

    def execute(self, inp):
        ra, rb = ranks(inp['a'], inp['b'])
        r = dict(op='set', a=ra, b=rb, dta=inp['dta'], dtb=inp['dtb'], ok=True, err='')
        D = None
        a = np.array(inp['a'], dtype=('>' if 'a' in inp['swap'] else '<') + inp['dta'])
        b = np.array(inp['b'], dtype=('>' if 'b' in inp['swap'] else '<') + inp['dtb'])
        vals = {}
        for name, f, x, y in (('dab', jaccarddist, a, b), ('dba', jaccarddist, b, a), ('jab', jaccard, a, b), ('jba', jaccard, b, a)):
            try:
                vals[name] = f(x, y)
            except (ValueError, TypeError):
                vals[name] = None                      # refused: nothing reported
        ref = np.array(inp['a'], dtype='u8'), np.array(inp['b'], dtype='u8')
        # a refused call is replaced by the value of the same call on native arrays (judged anyway), so only REPORTED wrong values are rejected
        r['dab'] = f32_fields(vals['dab'] if vals['dab'] is not None else jaccarddist(*ref))
        r['dba'] = f32_fields(vals['dba'] if vals['dba'] is not None else jaccarddist(ref[1], ref[0]))
        r['jab'] = fix47(vals['jab'] if vals['jab'] is not None else jaccard(*ref))
        r['jba'] = fix47(vals['jba'] if vals['jba'] is not None else jaccard(ref[1], ref[0]))
        r['refused'] = [k for k, v in vals.items() if v is None]
        return r

    def nontrivial(self, inp, rec):
        return core.short_hash(inp) if inp['a'] and inp['b'] else None


class RandomSets(Fam):
    name = 'random-sets'
    exhaustive = False

    def inputs(self, ctx):
        n_small, n_large = (1500, 8) if ctx.tier == 'quick' else (20000, 250)
        self.rule = (f'{n_small} seeded random pairs of sets with <=300 elements and {n_large} with up to 50,000 elements '
                     f'(nested, interleaved, disjoint, equal, one exhausted first, equal last elements, values spread over the '
                     f'whole range of the narrower dtype incl. its maximum), random dtype pairs')
        rng = np.random.default_rng(ctx.seed)
        for t in range(n_small + n_large):
            big = t >= n_small
            dta, dtb = (DTYPES[int(i)] for i in rng.integers(0, 6, 2))
            lo = min(dmax(dta), dmax(dtb))
            nmax = 50000 if big else 300
            if lo < 70000:
                nmax = min(nmax, 30000)
            na, nb = int(rng.integers(0, nmax)), int(rng.integers(0, nmax))
            span = int(min(lo, max(4, (na + nb) * int(rng.integers(1, 6)))))
            base = int(rng.random() * (lo - span)) if rng.random() < 0.5 else lo - span
            pool = rng.choice(span + 1, size=min(span + 1, na + nb), replace=False)
            pool = [base + int(x) for x in pool]
            mode = int(rng.integers(0, 6))
            A = set(pool[:na])
            if mode == 0:
                B = set(pool[na:na + nb])                     # disjoint
            elif mode == 1:
                B = set(pool[:max(1, na // 2)])               # nested
            elif mode == 2:
                B = set(A)                                    # equal
            else:
                k = int(rng.integers(0, na + 1))
                B = set(pool[k:k + nb])                       # overlapping
            if mode == 4 and A and B:
                m = max(max(A), max(B))
                A.add(m); B.add(m)                            # equal last elements
            if mode == 5 and A:
                B = {x for x in B if x < min(A)} or set()     # one exhausted first
            if rng.random() < 0.2:
                A.add(lo)
            if rng.random() < 0.1:
                B.add(lo)
            yield dict(a=sorted(A), b=sorted(B), dta=dta, dtb=dtb)


class AliasedViews(Fam):
    """both arguments are views into ONE buffer (same start address, same number of bytes) that nevertheless hold different sets:
    a contiguous and a strided slice, a row and a column of a matrix, one buffer read at two integer widths; plus genuinely identical views"""
    name = 'aliased-views'
    exhaustive = True
    rule = ('pairs of views into one buffer for every dtype and lengths 1..8: x[:n] vs x[:2n:2], row 0 vs column 0 of an n x n matrix, an unsigned buffer '
            'viewed at its own and at twice its width, the same object twice, a view of itself, a reversed-reversed view')

    def inputs(self, ctx):
        for dt in DTYPES:
            for n in range(1, 9):
                for kind in ('slice-vs-strided', 'row-vs-column', 'two-widths', 'same-object', 'view-of-itself', 'double-reverse'):
                    if kind == 'two-widths' and dt not in ('u2', 'u4'):
                        continue
                    yield dict(kind=kind, n=n, dt=dt)

    def execute(self, inp):
        n, dt = inp['n'], np.dtype(inp['dt'])
        kind = inp['kind']
        if kind == 'slice-vs-strided':
            x = np.arange(3, 3 + 2 * n, dtype=dt) * 3
            a, b = x[:n], x[:2 * n:2]
        elif kind == 'row-vs-column':
            m = (np.arange(n * n, dtype=dt).reshape(n, n) + 5)
            a, b = m[0], m[:, 0]
        elif kind == 'two-widths':
            y = np.arange(1, 2 * n + 1, dtype=dt) * 7
            a, b = y, y.view(np.dtype(f'u{dt.itemsize * 2}'))
        else:
            x = np.arange(2, 2 + n, dtype=dt) * 5
            a = x
            b = x if kind == 'same-object' else x[:] if kind == 'view-of-itself' else x[::-1][::-1]
        av, bv = [int(v) for v in a], [int(v) for v in b]
        assert av == sorted(set(av)) and bv == sorted(set(bv))
        ra, rb = ranks(av, bv)
        r = dict(op='set', a=ra, b=rb, dta=str(a.dtype), dtb=str(b.dtype), ok=False, err='')
        z = f32_fields(0.0)
        r.update(dab=z, dba=z, jab=fix47(0.0), jba=fix47(0.0))
        try:
            r['dab'] = f32_fields(jaccarddist(a, b)); r['dba'] = f32_fields(jaccarddist(b, a))
            r['jab'] = fix47(jaccard(a, b)); r['jba'] = fix47(jaccard(b, a))
            r['ok'] = [int(v) for v in a] == av and [int(v) for v in b] == bv
        except Exception as e:
            r['err'] = type(e).__name__
        return r

    def nontrivial(self, inp, rec):
        return core.short_hash(inp) if set(rec['a']) != set(rec['b']) and set(rec['a']) & set(rec['b']) else None

    def describe(self, inp, rec):
        return f"{inp['kind']} n={inp['n']} dtype={inp['dt']}"


def concurrent_records(ctx):
    """jaccard / jaccarddist called from several Python threads at once, each thread on its own private arrays (all six integer types, signed ones
    included), with a very short interpreter switch interval so that threads interleave inside the Python-level wrappers.  For every
    (thread, pair, function, argument order) the record carries a deviating value if any call returned one, else the common value; TLC judges it."""
    import sys
    import threading
    rng = np.random.default_rng(ctx.seed + 202)
    nthreads = 6
    secs = 4 if ctx.tier == 'quick' else 25
    work = []
    for t in range(nthreads):
        pairs = []
        for j in range(6):
            dta, dtb = [('i2', 'i4'), ('i8', 'i2'), ('i4', 'u2'), ('u8', 'i8'), ('i4', 'i4'), ('u4', 'i2')][(t + j) % 6]      # signed types on at least one side
            pool = [int(x) for x in rng.choice(3000, size=40, replace=False)]
            A = sorted(pool[:int(rng.integers(1, 25))]); B = sorted(pool[int(rng.integers(0, 15)):int(rng.integers(16, 40))])
            pairs.append((A, B, dta, dtb, np.array(A, dtype=dta), np.array(B, dtype=dtb)))
        work.append(pairs)
    seen = [[dict(dab=set(), dba=set(), jab=set(), jba=set()) for _ in pairs] for pairs in work]
    errors = []
    stop = threading.Event()
    rounds = [0] * nthreads
    target = 2500 if ctx.tier == 'quick' else 20000          # every thread completes at least this many rounds (work-based: a busy machine just takes longer)

    def body(t):
        try:
            while not stop.is_set():
                rounds[t] += 1
                for j, (A, B, dta, dtb, a, b) in enumerate(work[t]):
                    s = seen[t][j]
                    s['dab'].add(float(jaccarddist(a, b))); s['dba'].add(float(jaccarddist(b, a)))
                    s['jab'].add(float(jaccard(a, b))); s['jba'].add(float(jaccard(b, a)))
        except Exception as e:
            errors.append(f'{type(e).__name__}: {e}'[:100])

    old = sys.getswitchinterval()
    sys.setswitchinterval(1e-5)
    try:
        threads = [threading.Thread(target=body, args=(t,)) for t in range(nthreads)]
        for th in threads:
            th.start()
        import time
        t_end = time.time() + 8 * secs
        while time.time() < t_end and (min(rounds) < target) and not errors:
            time.sleep(0.05)
        stop.set()
        for th in threads:
            th.join()
    finally:
        sys.setswitchinterval(old)
    recs, inputs = [], []
    for t in range(nthreads):
        for j, (A, B, dta, dtb, a, b) in enumerate(work[t]):
            ra, rb = ranks(A, B)
            base = dict(dab=float(jaccarddist(a, b)), dba=float(jaccarddist(b, a)), jab=float(jaccard(a, b)), jba=float(jaccard(b, a)))      # alone, afterwards
            pick = {k: next((v for v in sorted(seen[t][j][k]) if v != base[k]), base[k]) for k in base}
            r = dict(op='set', a=ra, b=rb, dta=dta, dtb=dtb, ok=not errors, err='; '.join(errors)[:200])
            r.update(dab=f32_fields(np.float32(pick['dab'])), dba=f32_fields(np.float32(pick['dba'])), jab=fix47(pick['jab']), jba=fix47(pick['jba']))
            recs.append(r)
            inputs.append(dict(thread=t, pair=j, a=A, b=B, dta=dta, dtb=dtb, distinct={k: len(v) for k, v in seen[t][j].items()}))
    return inputs, recs


class Concurrent(Fam):
    name = 'concurrent-callers'
    exhaustive = False
    procs = 0
    rule = ('6 Python threads calling jaccard / jaccarddist in a loop on private arrays (6 pairs each, signed integer types on at least one side) with a 10 microsecond '
            'switch interval: every value returned under concurrency must be the correctly rounded ratio of that thread\'s own pair')

    def nontrivial(self, inp, rec):
        return core.short_hash([inp['thread'], inp['pair']])

    def describe(self, inp, rec):
        return f"thread {inp['thread']} pair {inp['pair']} dtypes={inp['dta']},{inp['dtb']} distinct values seen={inp['distinct']}"

    def corrupt(self, rec):
        return Fam.corrupt(self, rec)


def run_concurrent(ctx):
    fam = Concurrent()
    inputs, recs = concurrent_records(ctx)
    table = {core.canon(i): r for i, r in zip(inputs, recs)}
    fam.execute = lambda inp: table[core.canon(inp)]
    core.run_family(ctx, fam, inputs=inputs)


class ViaBulk(Fam):
    """the same distance through the bulk entry points, the second set sitting in a plain list BEHIND a narrower-typed dummy (the list's first
    element decides nothing): one-against-many and matrix forms must report the correctly rounded ratio of the pair"""
    name = 'via-bulk-functions'
    exhaustive = True
    rule = ('pairs (A, B) with B holding values >= 2^16 (u4) or >= 2^32 (u8), congruent to A\'s values modulo the narrower width, B placed second in a plain list whose '
            'first element is a narrow (u2 / u4) dummy: jaccarddist_matrix with two queries and jaccarddist_array')

    def inputs(self, ctx):
        for (narrow, wide, mod) in (('u2', 'u4', 1 << 16), ('i2', 'u4', 1 << 16), ('u4', 'u8', 1 << 32), ('u2', 'i8', 1 << 32)):
            small = [0, 5, 9]
            big = small + [mod + v for v in small]
            for ma in range(1, 8):
                for mb in range(1, 64):
                    if (ma + mb) % (1 if ctx.tier == 'thorough' else 3):
                        continue
                    yield dict(a=[small[i] for i in range(3) if (ma >> i) & 1], b=[big[i] for i in range(6) if (mb >> i) & 1], dta=narrow, dtb=wide)

    def execute(self, inp):
        from gambit.metric import jaccarddist_array, jaccarddist_matrix
        ra, rb = ranks(inp['a'], inp['b'])
        r = dict(op='set', a=ra, b=rb, dta=inp['dta'], dtb=inp['dtb'], ok=False, err='')
        z = f32_fields(0.0)
        r.update(dab=z, dba=z, jab=fix47(0.0), jba=fix47(0.0))
        try:
            a = np.array(inp['a'], dtype=inp['dta']); b = np.array(inp['b'], dtype=inp['dtb'])
            dummy = np.array([1, 2], dtype=inp['dta'])
            m = jaccarddist_matrix([a, a], [dummy, b])
            arr = jaccarddist_array(a, [dummy, b])
            r['dab'] = f32_fields(m[0][1]) if float(m[0][1]) == float(m[1][1]) else f32_fields(np.float32(-1))
            r['dba'] = f32_fields(arr[1])
            r['jab'] = fix47(jaccard(a, b)); r['jba'] = fix47(jaccard(b, a))
            r['ok'] = True
        except Exception as e:
            r['err'] = type(e).__name__
        return r

    def nontrivial(self, inp, rec):
        return core.short_hash(inp) if set(inp['a']) & set(inp['b']) else None

    def describe(self, inp, rec):
        return f"a={inp['a']} b={inp['b']} dtypes={inp['dta']},{inp['dtb']}"


class ViaBulkSelections(Fam):
    """the bulk entry points with an index selection that is not sorted and unique (permuted runs, repeats, reversed): the cell reported for
    position (x, y) of the selection must be the correctly rounded ratio of the pair (refs[idx[x]], refs[idx[y]])"""
    name = 'via-bulk-index-selections'
    exhaustive = True
    SETS = [[0, 1, 2, 3], [2, 3, 4], [0, 5], [1, 2, 6, 7, 8], [4, 9], [0, 1, 2, 3, 4, 5, 6, 7]]
    IDX = [[0, 2, 1, 3], [1, 3, 2, 4], [1, 2, 2, 4], [0, 0, 2], [0, 1, 1, 2], [4, 3, 2, 1, 0], [2, 2, 3], [5, 0, 1], [3, 5, 4], [1, 1, 3, 2, 5], [0, 1, 2, 3],
           [-1, 0, -2], [2, 4, 3, 5]]
    rule = ('6 fixed sets in a SignatureArray / SignatureList / HDF5 file; jaccarddist_matrix(ref_indices=idx) and jaccarddist_pairwise(indices=idx) for 13 index '
            'arrays (permuted runs whose end points look like a range, repeats, reversed, negative) as list / int64 array, chunk sizes {None, 2, 3}; every cell x != y')

    def inputs(self, ctx):
        for ii, idx in enumerate(self.IDX):
            for x in range(len(idx)):
                for y in range(len(idx)):
                    if x == y:
                        continue
                    for ci, cont in enumerate(('array', 'list', 'hdf5')):
                        for chunk in (None, 2, 3):
                            if ctx.tier != 'thorough' and (ii + x + y + ci + (chunk or 0)) % 2:
                                continue
                            yield dict(idx=idx, x=x, y=y, cont=cont, chunk=chunk, asarray=bool((x + y + ci) % 2))

    _H5 = {}

    def refs(self, cont):
        from gambit.sigs import SignatureArray, SignatureList, dump_signatures, load_signatures
        from gambit.kmers import KmerSpec
        import os, tempfile
        ks = KmerSpec(4, 'A')
        arr = SignatureArray([np.array(s, dtype='u2') for s in self.SETS], ks, dtype=np.dtype('u2'))
        if cont == 'array':
            return arr
        if cont == 'list':
            return SignatureList(arr)
        key = os.getpid()
        if key not in self._H5:
            d = tempfile.mkdtemp(prefix='c02sel-', dir=os.environ.get('VERIF_TMP', '/var/tmp'))
            path = os.path.join(d, 'r.gs')
            dump_signatures(path, arr)
            self._H5[key] = load_signatures(path)
            import atexit, shutil
            atexit.register(shutil.rmtree, d, True)
        return self._H5[key]

    def execute(self, inp):
        from gambit.metric import jaccarddist_matrix, jaccarddist_pairwise
        idx = inp['idx']
        a_vals, b_vals = self.SETS[idx[inp['x']]], self.SETS[idx[inp['y']]]
        ra, rb = ranks(a_vals, b_vals)
        r = dict(op='set', a=ra, b=rb, dta='u2', dtb='u2', ok=False, err='')
        z = f32_fields(0.0)
        r.update(dab=z, dba=z, jab=fix47(0.0), jba=fix47(0.0))
        try:
            refs = self.refs(inp['cont'])
            sel = np.array(idx, dtype=np.int64) if inp['asarray'] else list(idx)
            a = np.array(a_vals, dtype='u2'); b = np.array(b_vals, dtype='u2')
            kw = {} if inp['chunk'] is None else dict(chunksize=inp['chunk'])
            m = jaccarddist_matrix([a, b], refs, ref_indices=sel, **kw)
            pw = jaccarddist_pairwise(refs, indices=sel)
            r['dab'] = f32_fields(m[0][inp['y']]) if float(m[0][inp['y']]) == float(pw[inp['x']][inp['y']]) else f32_fields(np.float32(-1))
            r['dba'] = f32_fields(m[1][inp['x']]) if float(m[1][inp['x']]) == float(pw[inp['y']][inp['x']]) else f32_fields(np.float32(-1))
            r['jab'] = fix47(jaccard(a, b)); r['jba'] = fix47(jaccard(b, a))
            r['ok'] = True
        except Exception as e:
            r['err'] = type(e).__name__
        return r

    def nontrivial(self, inp, rec):
        return core.short_hash(inp) if sorted(set(inp['idx'])) != list(inp['idx']) else None

    def describe(self, inp, rec):
        return f"idx={inp['idx']} cell=({inp['x']},{inp['y']}) container={inp['cont']} chunksize={inp['chunk']}"


class LongIntervals(Fam):
    """signatures of 2^12 .. 2^20 (thorough 2^23) k-mers, lengths at and next to powers of two: the sets are unions of intervals, shipped to
    TLC as interval lists (cardinalities by arithmetic)"""
    name = 'long-interval-sets'
    exhaustive = False
    procs = 8

    def inputs(self, ctx):
        exps = [12, 14, 16, 20] if ctx.tier == 'quick' else [12, 13, 14, 15, 16, 17, 18, 20, 22, 23]
        self.rule = (f'sets that are unions of 1-3 intervals with lengths 2^e-1, 2^e, 2^e+1 for e in {exps}: equal, shifted by half, nested, '
                     f'adjacent-disjoint, comb, one tiny vs one long; dtype pairs u8/u8, u4/u8, i8/u4, u4/i4; base at 0 and at the top of the range')
        for e in exps:
            for L in ((1 << e) - 1, 1 << e, (1 << e) + 1):
                if L >= (1 << 23):
                    L = (1 << 23) - 3 + (L - (1 << 23))           # union stays below 2^24
                shapes = dict(equal=([(0, L)], [(0, L)]), half=([(0, L)], [(L // 2, L // 2 + L)]), nested=([(0, L)], [(L // 4, L // 2)]),
                              adjacent=([(0, L // 2)], [(L // 2, L)]), comb=([(0, L // 3), (L // 2, L)], [(L // 4, L // 2 + 5), (L - 7, L + 9)]),
                              tiny=([(5, 6), (L - 1, L)], [(0, L)]))
                for sname, (A, B) in shapes.items():
                    for di, (dta, dtb) in enumerate((('u8', 'u8'), ('u4', 'u8'), ('i8', 'u4'), ('u4', 'i4'))):
                        if (e + di + len(sname)) % (1 if ctx.tier == 'thorough' else 2):
                            continue
                        yield dict(a=[list(x) for x in A], b=[list(x) for x in B], dta=dta, dtb=dtb, top=bool((e + di) % 2), shape=sname)

    def execute(self, inp):
        r = dict(op='iv', a=inp['a'], b=inp['b'], dta=inp['dta'], dtb=inp['dtb'], ok=False, err='')
        z = f32_fields(0.0)
        r.update(dab=z, dba=z, jab=fix47(0.0), jba=fix47(0.0))
        try:
            hi = max([x[1] for x in inp['a'] + inp['b']])
            base = (min(dmax(inp['dta']), dmax(inp['dtb'])) - hi) if inp['top'] else 0
            mk = lambda ivs, dt: np.concatenate([np.arange(base + lo, base + h, dtype=np.dtype(dt)) for lo, h in ivs])
            a, b = mk(inp['a'], inp['dta']), mk(inp['b'], inp['dtb'])
            r['dab'] = f32_fields(jaccarddist(a, b)); r['dba'] = f32_fields(jaccarddist(b, a))
            r['jab'] = fix47(jaccard(a, b)); r['jba'] = fix47(jaccard(b, a))
            r['ok'] = True
        except Exception as e:
            r['err'] = type(e).__name__
        return r

    def nontrivial(self, inp, rec):
        return core.short_hash(inp) if inp['shape'] not in ('equal', 'adjacent') else None

    def describe(self, inp, rec):
        return f"{inp['shape']} a={inp['a']} b={inp['b']} dtypes={inp['dta']},{inp['dtb']} top={inp['top']}"


FAMILIES = [ExhaustiveSubsets, ByteOrder, RandomSets, AliasedViews, ViaBulk, ViaBulkSelections, LongIntervals]


def run(ctx):
    ctx.mc('JaccardMerge', 'MC_JaccardMerge.cfg', require_actions=['Step', 'Finish'],
           overrides=dict(U=5 if ctx.tier == 'quick' else 6),
           note='two-pointer merge == |A xor B|/|A or B| rounded once, all ordered pairs of subsets; loop invariant')
    ctx.mc('MC_JaccardAxioms', 'MC_JaccardAxioms.cfg', coverage=False, workers=1, overrides=dict(U=3),
           note='constant-level: F32Div brackets / F32OneMinus lemmas (ASSUMEs)')
    for F in FAMILIES:
        core.run_family(ctx, F())
    run_concurrent(ctx)
    ctx.assumptions += ['set elements are shipped as ranks in the sorted union (injective, order preserving)',
                        'float32 results are decomposed into (zero, exponent, significand) with struct; TLC computes the '
                        'correctly rounded quotient by long division',
                        'sets with >= 2^24 elements are not explored (the statement limits bit-exactness to < 2^24)']


def replay(ctx, scen):
    if scen['family'] not in {F.name for F in FAMILIES}:
        return core.RERUN            # reported outside a judged family: replay by re-running the check
    fam = {F.name: F for F in FAMILIES}[scen['family']]()
    recs, bad = core.run_family(ctx, fam, inputs=[scen['inputs']])
    return not bad
