"""C11 - every export format is a faithful image of the query results."""
import csv
import io
import json
import os
import random
import shutil

import numpy as np

from gambit.db import ReferenceDatabase
from gambit.query import query, QueryParams, QueryInput
from gambit.results import CSVResultsExporter, JSONResultsExporter, ResultsArchiveWriter, ResultsArchiveReader
from gambit.seq import SequenceFile
from .. import core, tlc, cli
from ..enc import f32_bits
from .. import world as W


def cps(s):
    return [ord(c) for c in str(s)]


def fbits(x):
    """a float that must hold a float32 value exactly -> its bit pattern (-2 if it does not)"""
    if x is None:
        return -1
    x = float(x)
    return f32_bits(x) if float(np.float32(x)) == x and x >= 0 else -2


def taxon(t):
    if t is None:
        return dict(some=False, key=[], name=[], rank=[], ncbi=-1, thr=-1)
    return dict(some=True, key=cps(t.key), name=cps(t.name), rank=[] if t.rank is None else [cps(t.rank)],
                ncbi=-1 if t.ncbi_id is None else int(t.ncbi_id), thr=fbits(t.distance_threshold))


def taxon_json(d):
    if d is None:
        return dict(some=False, key=[], name=[], rank=[], ncbi=-1, thr=-1)
    return dict(some=True, key=cps(d['key']), name=cps(d['name']), rank=[] if d['rank'] is None else [cps(d['rank'])],
                ncbi=-1 if d['ncbi_id'] is None else int(d['ncbi_id']), thr=fbits(d['distance_threshold']))


def item_csv_view(it):
    cm = it.classifier_result.closest_match
    return dict(label=cps(it.input.label), report=taxon(it.report_taxon), next=taxon(it.classifier_result.next_taxon),
                closest=dict(dist=fbits(cm.distance), desc=cps(cm.genome.description)))


def item_json_view(it):
    return dict(name=cps(it.input.label), path=[] if it.input.file is None else [cps(it.input.file.path)],
                predicted=taxon(it.report_taxon), next=taxon(it.classifier_result.next_taxon),
                closest=[dict(key=cps(m.genome.key), desc=cps(m.genome.description), dist=fbits(m.distance),
                              lineage=[cps(t.key) for t in m.genome.taxon.ancestors(incself=True)]) for m in it.closest_genomes])


def item_json_parsed(d):
    return dict(name=cps(d['query']['name']), path=[] if d['query']['path'] is None else [cps(d['query']['path'])],
                predicted=taxon_json(d['predicted_taxon']), next=taxon_json(d['next_taxon']),
                closest=[dict(key=cps(m['genome']['key']), desc=cps(m['genome']['description']), dist=fbits(m['distance']),
                              lineage=[cps(t['key']) for t in m['genome']['taxonomy']]) for m in d['closest_genomes']])


def match(m):
    if m is None:
        return []
    return [dict(genome=cps(m.genome.key), dist=fbits(m.distance), taxon=[] if m.matched_taxon is None else [cps(m.matched_taxon.key)])]


def archive_view(res):
    items = []
    for it in res.items:
        c = it.classifier_result
        items.append(dict(label=cps(it.input.label), file=[] if it.input.file is None else [cps(it.input.file.path), cps(it.input.file.format), cps(it.input.file.compression)],
                          success=bool(c.success), predicted=[] if c.predicted_taxon is None else [cps(c.predicted_taxon.key)],
                          primary=match(c.primary_match), closest=match(c.closest_match), next=[] if c.next_taxon is None else [cps(c.next_taxon.key)],
                          warnings=[cps(x) for x in c.warnings], error=[] if c.error is None else [cps(c.error)],
                          report=[] if it.report_taxon is None else [cps(it.report_taxon.key)],
                          closest_genomes=[match(m)[0] for m in it.closest_genomes]))
    p = res.params
    sm = res.signaturesmeta
    return dict(items=items, params=[] if p is None else [dict(strict=bool(p.classify_strict), chunksize=-1 if p.chunksize is None else int(p.chunksize), report_closest=int(p.report_closest))],
                genomeset=[] if res.genomeset is None else [cps(res.genomeset.key), cps(res.genomeset.version)],
                sigmeta=[] if sm is None else [cps(json.dumps(dict(id=sm.id, name=sm.name, version=sm.version, id_attr=sm.id_attr, description=sm.description, extra=sm.extra), sort_keys=True))],
                version=cps(res.gambit_version), timestamp=cps(res.timestamp.isoformat()), extra=cps(json.dumps(res.extra, sort_keys=True)))


def num_cell(text, kind):
    """numeric CSV cell -> int, or the bit pattern of the float32 nearest to the printed decimal (shortest float32 repr round-trips)"""
    if text == '':
        return -1
    try:
        if kind == 'int':
            return int(text)
        v = np.float32(float(text))
        return f32_bits(v) if v >= 0 and np.isfinite(v) else -2
    except ValueError:
        return -2


def csv_record(text, res):
    pyrows = list(csv.reader(io.StringIO(text, newline='')))
    num = []
    for row in pyrows[1:]:
        row = row + [''] * 11
        num.append(dict(pred_ncbi=num_cell(row[3], 'int'), pred_thr=num_cell(row[4], 'f'), dist=num_cell(row[5], 'f'),
                        next_ncbi=num_cell(row[9], 'int'), next_thr=num_cell(row[10], 'f')))
    return dict(op='csv', text=cps(text), pyrows=[[cps(c) for c in row] for row in pyrows], items=[item_csv_view(it) for it in res.items], num=num)


def json_record(text, res):
    r = dict(op='json', valid=False, parsed=[], items=[item_json_view(it) for it in res.items], err='')
    try:
        data = json.loads(text)
        r['parsed'] = [item_json_parsed(d) for d in data['items']]
        r['valid'] = True
    except Exception as e:
        r['err'] = f'{type(e).__name__}: {e}'[:120]
    return r


def archive_record(text, res, session):
    r = dict(op='archive', ok=False, equal=False, a=archive_view(res), b={}, err='')
    try:
        res2 = ResultsArchiveReader(session).read(io.StringIO(text))
        r['equal'] = bool(res2 == res)
        r['b'] = archive_view(res2)
        r['ok'] = True
    except Exception as e:
        r['err'] = f'{type(e).__name__}: {e}'[:160]
        r['b'] = dict(failed=True)
    return r


SHARED = {}


def export_all(res, session, how='api'):
    out = []
    before = archive_view(res)          # the results object as it is before anything is exported

    def run(kind, exporter, record):
        """one export; an exporter that raises yields a record the judge rejects (never a crash of the check)"""
        try:
            s = io.StringIO()
            exporter.export(s, res)
            out.append(record(s.getvalue()))
        except Exception as e:
            out.append(dict(op='json', valid=False, parsed=[], items=[], err=f'{kind} export raised {type(e).__name__}: {e}'[:160]))

    as_csv = lambda t: csv_record(t, res)
    as_json = lambda t: json_record(t, res)
    as_arch = lambda t: archive_record(t, res, session)
    # one long-lived exporter of each kind, reused for every result set of the run (a service would do that)
    if not SHARED:
        SHARED.update(csv=CSVResultsExporter(), json=JSONResultsExporter(), archive=ResultsArchiveWriter())
    run('csv', SHARED['csv'], as_csv)
    run('json', SHARED['json'], as_json)
    run('archive', SHARED['archive'], as_arch)
    # other exporters configured differently are created and used in between (a tab-separated table, an unquoted one, a compact JSON):
    # a default exporter created afterwards must still write the documented format
    import csv as _csv
    for opts in (dict(delimiter='\t'), dict(quoting=_csv.QUOTE_NONE, escapechar='\\'), dict(lineterminator='\r\n', quotechar="'")):
        try:
            CSVResultsExporter(**opts).export(io.StringIO(), res)
        except Exception:
            pass
    run('json', JSONResultsExporter(pretty=False), as_json)
    run('csv', CSVResultsExporter(), as_csv)
    run('json', JSONResultsExporter(), as_json)
    run('json', JSONResultsExporter(pretty=True), as_json)
    run('archive', ResultsArchiveWriter(), as_arch)
    run('archive', ResultsArchiveWriter(pretty=True), as_arch)
    # exporting must not change the results object it is given: the same object after all exports, compared with its state before
    r = dict(op='archive', ok=True, equal=False, a=before, b={}, err='')
    try:
        r['b'] = archive_view(res)
        r['equal'] = r['b'] == before
    except Exception as e:
        r['ok'] = False
        r['err'] = f'results object damaged by exporting: {type(e).__name__}: {e}'[:160]
        r['b'] = dict(failed=True)
    out.append(r)
    return out


def run(ctx):
    ctx.mc('MC_Csv', 'MC_Csv.cfg', coverage=False, workers=1, overrides=dict(MaxFieldLen=2 if ctx.tier == 'quick' else 3), timeout=5000,
           note='CsvParse(CsvWrite(t)) = t over all 2-field rows with fields over {x , " LF CR space e-acute} (ASSUMEs), both dialects')
    ctx.mc('ClassifyAlgo', 'MC_ClassifyAlgo.cfg', workers=16, overrides=dict(N=2, MaxRank=1), note='the result items being exported (shared with C03)')
    tmp = tlc.mktmp('c11-')
    recs = []
    try:
        variants = ['fancy', 'plain', 'fancy'] if ctx.tier == 'quick' else ['fancy', 'plain', 'fancy'] * 4
        multi_found = []
        for wi, names in enumerate(variants):
            w = W.default_world(ctx.seed + wi, names=names, hidden_root=(wi % 3 == 2))
            d = os.path.join(tmp, f'db{wi}')
            W.build_db(d, w)
            db = ReferenceDatabase.load_from_dir(d)
            pool = W.query_pool(w, seed=ctx.seed + 7)
            g = w['genomes']
            pool.append(dict(name='q_two_roots', contigs=g[0]['contigs'] + g[6]['contigs']))
            pool.append(dict(name='q_ident_ref', contigs=list(g[4]['contigs'])))          # distance exactly 0.0
            sigs = [W.real_signature(w['kspec'], q['contigs']) for q in pool]
            labels = ['lab,"el"\n1', 'ü2 ✓', 'plain3', ' 4 ', "it's", 'tab\tx', 'q;7', 'crlf\r\nx', 'lone\rcr'] if names == 'fancy' else [q['name'] for q in pool]
            for strict in (False, True):
                for nclose in (1, 3, 20):
                    inputs = []
                    for i, q in enumerate(pool):
                        lab = labels[i % len(labels)] + (f'#{i}' if names == 'fancy' else '')
                        if i % 3 == 0:
                            inputs.append(QueryInput(lab, SequenceFile(f'/some dir/{q["name"]}.fa.gz', 'fasta', 'gzip' if i % 2 else None)))
                        else:
                            inputs.append(QueryInput(lab))               # no source file (as with -s)
                    res = query(db, sigs, QueryParams(classify_strict=strict, report_closest=nclose, chunksize=[1000, 2, None][nclose % 3]), inputs=inputs)
                    res.extra = dict(note='é ✓', n=[1, 2, {'k': None}]) if names == 'fancy' else {}
                    # header fields take values a run can legitimately have (not only "now"): whole seconds, time zones, far dates, long versions
                    from datetime import datetime, timezone, timedelta
                    stamps = [None, datetime(2021, 8, 18, 12, 0, 0), datetime(2021, 8, 18, 12, 0, 0, tzinfo=timezone.utc), datetime(1999, 12, 31, 23, 59, 59, 1),
                              datetime(2030, 2, 28, 0, 0, tzinfo=timezone(timedelta(hours=-9, minutes=-30))), datetime.fromtimestamp(1600000000), datetime(1, 1, 1), datetime(9999, 12, 31, 23, 59, 59, 999999),
                              datetime(2024, 2, 29, 6, 7, 8, 120000)]
                    st = stamps[(3 * strict + [1, 3, 20].index(nclose) + 6 * wi) % len(stamps)]
                    if st is not None:
                        res.timestamp = st
                    if nclose == 3:
                        res.gambit_version = ['1.0.0', '1.1.0.dev0+g1234abc.d20240101', 'ü "v", 2\n'][wi % 3]
                    recs += export_all(res, db.session)
            # results carrying SEVERAL warnings (strict classification of crafted distance vectors: inconsistent matches AND a primary
            # match that is not the closest genome), found by a seeded search over vectors of multiples of 1/16
            import numpy as np
            from gambit.query import get_result_item, QueryResults
            from gambit.classify import classify
            rngw = random.Random(ctx.seed + 77 + wi)
            multi = []
            for _ in range(4000):
                dv = np.array([rngw.choice([0, 1, 2, 3, 4, 5, 6, 7, 8, 12, 16]) / 16 for _ in db.genomes], dtype=np.float32)
                if len(classify(db.genomes, dv, strict=True).warnings) >= 2:
                    multi.append(dv)
                    if len(multi) == 3:
                        break
            if multi:
                params = QueryParams(classify_strict=True, report_closest=3)
                items = [get_result_item(db, params, dv, QueryInput(f'crafted {j}')) for j, dv in enumerate(multi)]
                res = QueryResults(items=items, params=params, genomeset=db.genomeset, signaturesmeta=db.signatures.meta, extra={})
                recs += export_all(res, db.session)
                multi_found.append(len(multi))
            # through the command line, all three formats, files and -s with integer ids
            paths = [W.write_fasta(os.path.join(tmp, f'q{wi}', f'{q["name"]}.fasta'), q['contigs']) for q in pool]
            from gambit.kmers import KmerSpec
            from gambit.sigs import SignatureArray, dump_signatures
            sf = os.path.join(tmp, f'q{wi}.gs')
            dump_signatures(sf, SignatureArray(sigs, KmerSpec(*w['kspec'])))
            for fmt in ('csv', 'json', 'archive'):
                for src in ('files', 'sigs'):
                    out = os.path.join(tmp, f'cli{wi}_{fmt}_{src}.out')
                    rc, so, se = cli.run_cli(['-d', d, 'query', '-f', fmt, '-o', out, '--no-progress'] + (paths if src == 'files' else ['-s', sf]))
                    if rc != 0:
                        ctx.report('cli-export', dict(world=names, fmt=fmt, src=src), dict(rc=rc, stderr=se[-300:]), ['command-failed'], key=f'cli-export:{fmt}:{src}')
                        continue
                    text = open(out, newline='', encoding='utf-8').read()
                    if src == 'files':
                        ins = [QueryInput(q['name'], SequenceFile(p, 'fasta', 'auto')) for q, p in zip(pool, paths)]
                    else:
                        ins = [QueryInput(i) for i in range(len(pool))]
                    # the reference results: the same query through the library (same database, same parameters as the CLI)
                    res = query(db, sigs, QueryParams(), inputs=[QueryInput(str(x.label), x.file) for x in ins])
                    if fmt == 'csv':
                        recs.append(csv_record(text, res))
                    elif fmt == 'json':
                        recs.append(json_record(text, res))
                    else:
                        # timestamps differ between the two runs: compare the archive with itself read back, and its items with the library run
                        try:
                            res_cli = ResultsArchiveReader(db.session).read(io.StringIO(text))
                            s = io.StringIO(); ResultsArchiveWriter().export(s, res_cli)
                            rec = archive_record(s.getvalue(), res_cli, db.session)
                            a, b = archive_view(res_cli), archive_view(res)
                            rec['equal'] = rec['equal'] and a['items'] == b['items']
                            recs.append(rec)
                        except Exception as e:
                            recs.append(dict(op='archive', ok=False, equal=False, a={}, b={}, err=str(e)[:100]))
            db.signatures.close()
            db.session.close()
        n, bad = tlc.judge('Judge_C11', recs)
        for i, why in bad:
            r = recs[i]
            ctx.report('exports', dict(op=r['op'], index=i), {k: (v if k not in ('text', 'pyrows') else '(omitted)') for k, v in r.items()} if r['op'] != 'archive' else dict(err=r.get('err'), equal=r.get('equal')),
                       why, key=f'export:{r["op"]}:{why[0] if why else ""}', describe=f'{r["op"]} {r.get("err", "")}')
        ctx.traces += n
        ctx.evaluations += n
        for i, r in enumerate(recs):
            ctx.nontrivial_keys.add(('export', r['op'], i))
        ctx.families.append(dict(name='exports', records=n, rejected=len(bad), judge='Judge_C11', by_format={f: sum(1 for r in recs if r['op'] == f) for f in ('csv', 'json', 'archive')}))
        ctx.add_samples([dict(family='exports', op='csv', text=''.join(map(chr, recs[0]['text']))[:600])], limit=1)
        ctx.rule_parts.append('[exports] real query results on two synthetic databases (taxon names, genome descriptions and labels with commas, quotes, '
                              'LF, CRLF, tabs, non-ASCII; no prediction, unreportable predicted taxon with and without a reportable ancestor, distance exactly 0, failed strict result '
                              'with warnings, inputs without source file, integer ids; run time stamps on whole seconds, with time zones, at the ends of the calendar; odd version strings) x strict/non-strict x list lengths, exported by the three '
                              'exporters (plain and pretty) and by `gambit query -f csv|json|archive` (files and -s): the raw CSV is parsed by '
                              'TLC and by Python\'s csv and compared column by column with the result items; JSON is parsed strictly and compared '
                              'field by field; the archive is read back against the same session and compared for == and field by field')
        ctx.exhaustive_all = False
        import copy
        good = next(r for r in recs if r['op'] == 'csv')
        c1 = copy.deepcopy(good); c1['items'][0]['closest']['dist'] += 1
        c2 = copy.deepcopy(good); c2['text'] = [c for c in c2['text'] if c != 34]
        gj = next(r for r in recs if r['op'] == 'json' and r['valid'])
        c3 = copy.deepcopy(gj); c3['parsed'][0]['name'] = cps('other')
        ga = next(r for r in recs if r['op'] == 'archive' and r['ok'])
        c4 = copy.deepcopy(ga); c4['b']['items'][0]['closest'][0]['dist'] += 1
        _, b2 = tlc.judge('Judge_C11', [c1, c2, c3, c4], shards=1)
        ctx.selftests.append(dict(family='exports', corrupted=4, rejected=len({i for i, _ in b2})))
        if len({i for i, _ in b2}) != 4:
            raise tlc.MachineryError('self-test: Judge_C11 accepted a corrupted export record')
    finally:
        shutil.rmtree(tmp, ignore_errors=True)
    ctx.assumptions += ['JSON syntax validity is decided by Python\'s json parser, not by a TLA+ grammar',
                        'lone CR characters are excluded from names (Python\'s csv writer leaves them unquoted in the LF dialect)',
                        'thresholds of the synthetic databases are float32-exact; numeric cells are compared as bit patterns']


replay = core.RERUN
