"""C01 - a signature is exactly the set of prefix-anchored k-mers on both strands."""
import itertools

import numpy as np
from Bio.Seq import Seq

from gambit.kmers import KmerSpec, find_kmers
from gambit.sigs.calc import calc_signature, ArrayAccumulator, SetAccumulator
from .. import core
from ..enc import blist, digits4

TYPES = {
    'bytes': lambda b: bytes(b),
    'bytearray': lambda b: bytearray(b),
    'str': lambda b: bytes(b).decode('ascii') if max(b, default=0) < 128 else None,
    'Seq': lambda b: Seq(bytes(b)),
}
ACCS = {'array': ArrayAccumulator, 'set': SetAccumulator, 'default': None}


def out_record(res, k):
    if isinstance(res, Exception):
        return dict(ok=False, err=type(res).__name__, sig=[], width=0, kind='', inrange=True)
    arr = np.asarray(res)
    vals = [int(v) for v in arr]
    return dict(ok=True, err='', sig=[digits4(v, k) for v in vals], width=int(arr.dtype.itemsize), kind=str(arr.dtype.kind),
                inrange=all(0 <= v < 4 ** k for v in vals) and arr.ndim == 1)


def failing_call(kspec):
    """a calc_signature call that fails AFTER k-mers were found (second element has a wrong type); the error is swallowed"""
    pre = kspec.prefix
    good = pre + b'ACGT' * 8 + pre + b'TTGCA' * 7
    try:
        calc_signature(kspec, [good, 12345])
    except Exception:
        return True
    return False


def sig_record(k, pre, seqs, types, accs, as_single=False, after_failure=False, prev=None):
    """Run calc_signature for every (type, accumulator) variant; identical outputs are stored once."""
    outs = {}
    kspec = KmerSpec(k, bytes(pre))
    if after_failure:
        failing_call(kspec)
    for t in types:
        if t == 'text':
            conv = [''.join(chr(c) for c in s) for s in seqs]          # str given as code points, some outside ASCII
        elif t == 'reused-buffer':
            conv = list(seqs)
        else:
            conv = [TYPES[t](s) for s in seqs]
        if any(c is None for c in conv):
            continue
        for a in accs:
            if a == 'array' and k > 12:
                continue
            try:
                acc = ACCS[a](k) if ACCS[a] else None
                if t == 'reused-buffer':
                    # ONE mutable buffer object: it first held (and was searched with) other contents - `prev` -, then it is refilled in place
                    # for every sequence, as a reader that recycles its buffer does
                    buf = bytearray()
                    for old in (prev or []):
                        buf[:] = old
                        list(find_kmers(kspec, buf))
                        calc_signature(kspec, buf)

                    def refill(buf=buf):
                        for s_ in conv:
                            buf[:] = s_
                            yield buf
                    arg = refill()
                else:
                    arg = conv[0] if (as_single and len(conv) == 1) else iter(conv) if a == 'set' else conv
                res = calc_signature(kspec, arg, accumulator=acc)
            except Exception as e:
                res = e
            o = out_record(res, k)
            outs.setdefault(core.canon(o), (o, []))[1].append(f'{t}/{a}')
    return dict(op='sig', k=k, pre=blist(pre), seqs=[list(s) for s in seqs], must_fail=('text' in types),
                outs=[dict(o, variants=v) for o, v in outs.values()])


def find_record(k, pre, seq, typ):
    kspec = KmerSpec(k, bytes(pre))
    r = dict(op='find', k=k, pre=blist(pre), seqs=[blist(seq)], ok=True, err='', matches=[])
    try:
        for m in find_kmers(kspec, TYPES[typ](seq)):
            try:
                idx = m.kmer_index()
                r['matches'].append(dict(valid=True, idx=digits4(idx, k)))
            except ValueError:
                r['matches'].append(dict(valid=False, idx=[]))
    except Exception as e:
        r['ok'] = False
        r['err'] = type(e).__name__
    return r


class Fam(core.Family):
    judge = 'Judge_C01'
    procs = 16

    def execute(self, inp):
        if inp['op'] == 'find':
            return find_record(inp['k'], bytes(inp['pre']), bytes(inp['seqs'][0]), inp.get('typ', 'bytes'))
        return sig_record(inp['k'], bytes(inp['pre']), [(list(s) if inp['types'] == ['text'] else bytes(s)) for s in inp['seqs']], inp['types'], inp['accs'],
                          as_single=inp.get('single', False), after_failure=inp.get('after_failure', False),
                          prev=[bytes(p) for p in inp.get('prev', [])])

    def nontrivial(self, inp, rec):
        # non-trivial: the expected signature is non-empty (some output has >= 1 k-mer)
        if rec['op'] == 'sig':
            return core.short_hash([inp['k'], inp['pre'], inp['seqs']]) if any(o['sig'] for o in rec['outs']) else None
        return core.short_hash([inp['k'], inp['pre'], inp['seqs']]) if any(m['valid'] for m in rec['matches']) else None

    def corrupt(self, rec):
        if rec['op'] == 'sig':
            o = rec['outs'][0]
            if rec.get('must_fail'):
                o['ok'] = True                       # pretend the text was accepted
                return rec
            if o['sig']:
                o['sig'] = o['sig'][:-1]           # drop the last k-mer
            else:
                o['sig'] = [[0] * rec['k']]        # invent one
            return rec
        if rec['matches'] and any(m['valid'] for m in rec['matches']):
            rec['matches'] = [m for m in rec['matches'] if not m['valid']]
            return rec
        rec['matches'].append(dict(valid=True, idx=[0] * rec['k']))
        return rec

    def describe(self, inp, rec):
        show = lambda s_: bytes(s_) if max(s_, default=0) < 256 else ''.join(chr(c) for c in s_)
        return f"k={inp['k']} prefix={bytes(inp['pre'])!r} seqs={[show(s_) for s_ in inp['seqs']][:3]!r}"


KP = [(1, b'A'), (2, b'A'), (3, b'A'), (1, b'AT'), (2, b'AT'), (3, b'AT'), (1, b'AA'), (2, b'AA'), (1, b'CG'), (2, b'CG'),
      (2, b'ACA'), (1, b'T')]
ALLT = list(TYPES)
ALLA = ['array', 'set', 'default']


class ExhaustiveN(Fam):
    name = 'exhaustive-ACGTN'
    exhaustive = True

    def inputs(self, ctx):
        L = 5 if ctx.tier == 'quick' else 7
        self.rule = (f'every sequence of length <= {L} over {{A,C,G,T,N}} x 12 (k,prefix) pairs (k<=3; prefixes A, AT, AA, CG, '
                     f'ACA, T) through calc_signature as str/bytes/bytearray/Bio.Seq x Array/Set/default accumulator '
                     f'(all variants judged); non-trivial = non-empty signature')
        for n in range(0, L + 1):
            for t in itertools.product(b'ACGTN', repeat=n):
                for k, p in KP:
                    yield dict(op='sig', k=k, pre=list(p), seqs=[list(t)], types=ALLT, accs=ALLA, single=(n % 2 == 0))


class ExhaustiveMixed(Fam):
    name = 'exhaustive-mixed-case'
    exhaustive = True

    def inputs(self, ctx):
        L = 4 if ctx.tier == 'quick' else 6
        self.rule = (f'every sequence of length <= {L} over {{A,T,c,g,a,N}} x (k,prefix) in {{(1,AT),(2,A),(2,CG),(1,AA)}} '
                     f'through calc_signature (4 types x 3 accumulators) and find_kmers+kmer_index')
        for n in range(0, L + 1):
            for t in itertools.product(b'ATcgaN', repeat=n):
                for k, p in [(1, b'AT'), (2, b'A'), (2, b'CG'), (1, b'AA')]:
                    yield dict(op='sig', k=k, pre=list(p), seqs=[list(t)], types=ALLT, accs=ALLA)
                    yield dict(op='find', k=k, pre=list(p), seqs=[list(t)], typ='bytes')


def planted(rng, n, k, pre, alphabet, density):
    """random sequence with planted forward / reverse prefix occurrences (so that matches are frequent)"""
    s = bytearray(rng.choice(alphabet) for _ in range(n))
    rc = bytes({65: 84, 84: 65, 67: 71, 71: 67}[c] for c in reversed(pre))
    for _ in range(int(n * density) + rng.randint(0, 2)):
        if n < len(pre):
            break
        p = rng.randint(0, n - len(pre))
        w = pre if rng.random() < 0.5 else rc
        if rng.random() < 0.3:
            w = w.lower()
        s[p:p + len(pre)] = w
    # make matches flush with both ends now and then
    if n >= len(pre) + k and rng.random() < 0.3:
        s[0:len(pre)] = pre
    if n >= len(pre) + k and rng.random() < 0.3:
        s[n - len(pre):] = rc
    if n >= len(pre) and rng.random() < 0.2:
        s[n - len(pre):] = pre          # forward prefix with no room for a k-mer
    if n >= len(pre) and rng.random() < 0.2:
        s[0:len(pre)] = rc              # reverse prefix with no room before it
    return bytes(s)


class Random(Fam):
    name = 'random-planted'
    exhaustive = False

    def inputs(self, ctx):
        n = 1500 if ctx.tier == 'quick' else 40000
        self.rule = (f'{n} seeded random inputs: 1-4 sequences of length 0..400 (some up to 5000) over ACGT / ACGTacgtN / '
                     f'arbitrary bytes incl. bytes one bit away from a nucleotide, planted forward and reverse prefix '
                     f'occurrences (flush with either end, too close to an end), k in 1..32, prefix length 1..7; '
                     f'array accumulator for k<=10 (k=11,12 sampled), set accumulator always; every 4th input also through ONE bytearray object that was searched '
                     f'with other contents before and is refilled in place for each sequence')
        rng = ctx.rng
        alphabets = [b'ACGT', b'ACGTacgtNn', bytes(range(256)), b'ACGT@`!Uu\xc1\xe1ac', b'AT', b'ACGTN']
        for i in range(n):
            r = rng.random()
            k = rng.choice([1, 2, 3, 4, 5, 8, 9, 11, 12, 13, 16, 17, 31, 32]) if r < 0.5 else rng.randint(1, 32)
            plen = rng.randint(1, 7) if rng.random() < 0.8 else rng.randint(1, 3)
            pre = bytes(rng.choice(b'ACGT') for _ in range(plen))
            if rng.random() < 0.15:
                pre = bytes([rng.choice(b'ACGT')]) * plen        # self-overlapping
            if rng.random() < 0.1:
                half = bytes(rng.choice(b'ACGT') for _ in range(max(1, plen // 2)))
                pre = half + bytes({65: 84, 84: 65, 67: 71, 71: 67}[c] for c in reversed(half))   # palindromic
            alpha = rng.choice(alphabets)
            nseq = rng.choice([1, 1, 1, 2, 3, 4])
            seqs = []
            for _ in range(nseq):
                ln = rng.randint(0, 400) if rng.random() < 0.97 else rng.randint(1000, 5000)
                if rng.random() < 0.1:
                    ln = rng.randint(0, len(pre) + k + 1)
                sq = planted(rng, ln, k, pre, alpha, 0.03)
                if rng.random() < 0.06:
                    # white space is just another non-nucleotide symbol, also at either end of a sequence given as text
                    ws = bytes(rng.choice(b' \t\n\r\x0b\x0c') for _ in range(rng.randint(1, 3)))
                    sq = (ws + sq) if rng.random() < 0.5 else (sq + ws) if rng.random() < 0.5 else (ws + sq + ws)
                seqs.append(list(sq))
            accs = ['set', 'default']
            if k <= 10 or (k <= 12 and i % 50 == 0):
                accs.append('array')
            yield dict(op='sig', k=k, pre=list(pre), seqs=seqs, types=ALLT, accs=(['default'] + accs) if i % 5 == 0 else accs, single=(i % 3 == 0),
                       after_failure=(i % 5 == 0))
            if i % 6 == 2 and seqs and seqs[0]:
                # str input with one symbol outside ASCII spliced in (accented letter, no-break space, look-alike letter, line separator)
                bad = [list(x) for x in seqs]
                pos = rng.randrange(len(bad[0]) + 1)
                bad[0][pos:pos] = [rng.choice([0xe9, 0xa0, 0x410, 0xff21, 0x2028, 0x80])]
                if all(c < 128 or c in (0xe9, 0xa0, 0x410, 0xff21, 0x2028, 0x80) for x in bad for c in x):
                    yield dict(op='sig', k=k, pre=list(pre), seqs=bad, types=['text'], accs=['set', 'default'], single=(i % 2 == 0))
            if i % 4 == 1:
                # the same mutable buffer object searched again after its contents changed in place (earlier contents: lower-case variants,
                # other sequences of the same and of other lengths)
                prev = [list(bytes(seqs[0]).lower()), list(planted(rng, len(seqs[0]), k, pre, b'ACGTacgt', 0.05)), list(planted(rng, rng.randint(0, 60), k, pre, alpha, 0.05))]
                yield dict(op='sig', k=k, pre=list(pre), seqs=seqs, types=['reused-buffer'], accs=['set', 'default'], single=False, prev=prev)
            if i % 4 == 0:
                yield dict(op='find', k=k, pre=list(pre), seqs=[seqs[0]], typ=rng.choice(['bytes', 'bytearray', 'Seq']))


class ManyOccurrences(Fam):
    """one k-mer occurring 255, 256, 257, 512 (thorough: 1024, 4096) times - in one sequence, split over strands, split over sequences: a signature
    records WHETHER a k-mer occurs, never how often (counters of any width must not wrap it away)"""
    name = 'many-occurrences'
    exhaustive = True
    procs = 8

    def inputs(self, ctx):
        counts = [255, 256, 257, 512] + ([1024, 4096] if ctx.tier == 'thorough' else [])
        self.rule = (f'tandem repeats of prefix + k-mer + spacer, {counts} occurrences of the same k-mer, all on the forward strand / half on each strand / '
                     f'spread over 1, 2 and 128 sequences; (k, prefix) in (2, AC), (5, AT), (11, ATGAC), (12, AT); a second k-mer occurring once; array, set and default accumulators')
        comp = bytes.maketrans(b'ACGT', b'TGCA')
        for k, pre in ((2, b'AC'), (5, b'AT'), (11, b'ATGAC'), (12, b'AT')):
            kmer = (b'GGCCGCGGCCGG')[:k]
            unit = pre + kmer + b'C'
            once = pre + (b'CCGGCCGGCCGC')[:k] + b'G'
            for c in counts:
                fwd = unit * c
                half = unit * (c // 2)
                rc = half.translate(comp)[::-1]
                layouts = {'forward': [once + fwd], 'both-strands': [half + once + rc + (unit if c % 2 else b'')],
                           'two-sequences': [half + (unit if c % 2 else b''), once, rc],
                           'many-sequences': [unit * (c // 128)] * 128 + [unit * (c % 128), once]}
                for name, seqs in layouts.items():
                    accs = ['set', 'default'] + (['array'] if k <= 11 else [])
                    yield dict(op='sig', k=k, pre=list(pre), seqs=[list(x) for x in seqs], types=['bytes'], accs=accs, single=False, layout=f'{name} x{c}')

    def describe(self, inp, rec):
        return f"k={inp['k']} prefix={bytes(inp['pre'])!r} {inp['layout']}"


class LongContigs(Fam):
    """Contigs longer than 2^16 / 2^20 nt.  TLC judges overlapping 2,000-nt pieces of the contig (overlap |prefix|+k-1, so that every
    prefix+k-mer window lies inside some piece - lemma LemmaPieces, model-checked); the signature of the whole contig must be the
    union of the piece signatures TLC accepted."""
    name = 'long-contigs'
    exhaustive = False
    rule = ('contigs of 2^20 + 3000 nt; one variant per (boundary B in {2^16, 2^20}, offset j in -2..|prefix|+k+1, strand) with a prefix occurrence '
            'planted at B-j (k=11/ATGAC; thorough also 5/AT, 16/ATG, 3/ACA and B = 2^24): the whole-contig signature must equal the union of '
            'the signatures of overlapping 2,000-nt pieces; the piece holding the planted occurrence is judged by TLC in every variant')
    procs = 16
    STEP = 2000

    def inputs(self, ctx):
        return []

    @staticmethod
    def base(seed, n):
        import random
        rng = random.Random(seed)
        return rng.randbytes(n).translate(bytes(b'ACGT'[i & 3] for i in range(256)))

    @staticmethod
    def variants(k, pre, boundaries):
        T = len(pre) + k
        return [(B, j, rev) for B in boundaries for j in range(-2, T + 2) for rev in (False, True)]

    @staticmethod
    def variant(base, pre, B, j, rev):
        rc = bytes({65: 84, 84: 65, 67: 71, 71: 67}[c] for c in reversed(pre))
        s = bytearray(base)
        s[B - j:B - j + len(pre)] = rc if rev else pre
        return bytes(s)

    @classmethod
    def pieces(cls, n, T):
        return [(a, min(n, a + cls.STEP + T - 1)) for a in range(0, n, cls.STEP)]


def long_contig_variants(ctx, k, pre, seed, boundaries, n):
    """yields (label, contig bytes, required signature as a set of ints, TLC-judge inputs for the pieces touched by the planting)"""
    T = len(pre) + k
    kspec = KmerSpec(k, pre.decode())
    base = LongContigs.base(seed, n)
    pcs = LongContigs.pieces(n, T)
    base_sigs = [frozenset(int(v) for v in calc_signature(kspec, base[a:b], accumulator=SetAccumulator(k))) for a, b in pcs]
    for (B, j, rev) in LongContigs.variants(k, pre, boundaries):
        s = LongContigs.variant(base, pre, B, j, rev)
        lo, hi = B - j, B - j + len(pre)
        union = set()
        judged = []
        for (a, b), bs in zip(pcs, base_sigs):
            if a < hi and b > lo:
                piece = s[a:b]
                union |= set(int(v) for v in calc_signature(kspec, piece, accumulator=SetAccumulator(k)))
                judged.append(dict(op='sig', k=k, pre=list(pre), seqs=[list(piece)], types=['bytes'], accs=['set']))
            else:
                union |= bs
        yield f'B{B}:j{j}:{"rev" if rev else "fwd"}', s, union, judged


def long_contig_sets(ctx):
    if ctx.tier == 'quick':
        return [(11, b'ATGAC', ctx.seed, [1 << 16, 1 << 20], (1 << 20) + 3000)]
    return [(11, b'ATGAC', ctx.seed, [1 << 16, 1 << 20], (1 << 20) + 3000), (5, b'AT', ctx.seed + 1, [1 << 16, 1 << 20], (1 << 20) + 3000),
            (16, b'ATG', ctx.seed + 2, [1 << 20], (1 << 20) + 3000), (3, b'ACA', ctx.seed + 3, [1 << 20], (1 << 20) + 3000),
            (11, b'ATGAC', ctx.seed + 4, [1 << 24], (1 << 24) + 3000)]


def long_contig_check(ctx):
    fam = LongContigs()
    for (k, pre, seed, boundaries, n) in long_contig_sets(ctx):
        kspec = KmerSpec(k, pre.decode())
        judged_inputs = []
        for label, s, union, judged in long_contig_variants(ctx, k, pre, seed, boundaries, n):
            whole = set(int(v) for v in calc_signature(kspec, s))
            judged_inputs += judged
            if whole != union:
                ctx.report('long-contigs', dict(k=k, pre=list(pre), seed=seed, length=len(s), variant=label),
                           dict(missing=sorted(union - whole)[:3], extra=sorted(whole - union)[:3], n_whole=len(whole), n_union=len(union)),
                           ['whole-contig-signature-differs-from-union-of-overlapping-pieces'], key=f'long-contig:k{k}:{label}',
                           describe=f'k={k} prefix={pre!r} length={len(s)} planted {label}: {len(union - whole)} k-mers missing, {len(whole - union)} extra')
            ctx.nontrivial_keys.add(('long', k, label))
            ctx.traces += 1
            ctx.evaluations += 1
        core.run_family(ctx, fam, inputs=judged_inputs)


class Concurrent(Fam):
    """calc_signature / find_kmers called from several Python threads at once, each on its own sequences (mixed case, bytearray and str among
    them), with a 10 microsecond switch interval; per (thread, input) the record holds a deviating result if any call returned one"""
    name = 'concurrent-callers'
    exhaustive = False
    procs = 0
    rule = ('6 threads looping over 5 private inputs each (k in {4, 11, 13}, planted prefixes, mixed case; bytes / bytearray / str / Seq) for a few seconds: every '
            'signature returned under concurrency is judged against the definition')

    def inputs(self, ctx):
        return []


def run_concurrent(ctx):
    import sys
    import threading
    import time
    rng = ctx.rng.__class__(ctx.seed + 404)
    nthreads, secs = 6, (3 if ctx.tier == 'quick' else 20)
    work = []
    for t in range(nthreads):
        items = []
        for j in range(5):
            k = [4, 11, 13][(t + j) % 3]
            pre = [b'AT', b'ATGAC', b'CAG'][(t + 2 * j) % 3]
            seq = planted(rng, rng.randint(30, 400), k, pre, b'ACGTacgtN', 0.05)
            typ = ALLT[(t + j) % len(ALLT)]
            arg = TYPES[typ](seq)
            if arg is None:
                typ, arg = 'bytes', bytes(seq)
            items.append((k, pre, seq, typ, arg, KmerSpec(k, pre)))
        work.append(items)
    seen = [[{} for _ in items] for items in work]
    errors = []
    stop = threading.Event()

    def body(t):
        try:
            while not stop.is_set():
                for j, (k, pre, seq, typ, arg, ks) in enumerate(work[t]):
                    res = calc_signature(ks, arg)
                    key = (str(res.dtype), tuple(int(v) for v in res))
                    seen[t][j][key] = seen[t][j].get(key, 0) + 1
        except Exception as e:
            errors.append(f'{type(e).__name__}: {e}'[:100])

    old = sys.getswitchinterval()
    sys.setswitchinterval(1e-5)
    try:
        threads = [threading.Thread(target=body, args=(t,)) for t in range(nthreads)]
        for th in threads:
            th.start()
        time.sleep(secs)
        stop.set()
        for th in threads:
            th.join()
    finally:
        sys.setswitchinterval(old)
    fam = Concurrent()
    inputs, table = [], {}
    for t in range(nthreads):
        for j, (k, pre, seq, typ, arg, ks) in enumerate(work[t]):
            alone = calc_signature(ks, arg)
            base = (str(alone.dtype), tuple(int(v) for v in alone))
            pick = next((x for x in sorted(seen[t][j]) if x != base), base)
            o = out_record(np.array(pick[1], dtype=pick[0]), k) if not errors else out_record(RuntimeError(errors[0]), k)
            inp = dict(op='sig', thread=t, item=j, k=k, pre=list(pre), seqs=[list(seq)], typ=typ, distinct=len(seen[t][j]))
            inputs.append(inp)
            table[core.canon(inp)] = dict(op='sig', k=k, pre=blist(pre), seqs=[blist(seq)], must_fail=False, outs=[dict(o, variants=[f'{typ}/threads'])])
    fam.execute = lambda inp: table[core.canon(inp)]
    core.run_family(ctx, fam, inputs=inputs)


FAMILIES = [ExhaustiveN, ExhaustiveMixed, Random, ManyOccurrences]


def run(ctx):
    acts = ['FwdFind', 'RevFind']
    if ctx.tier == 'quick':
        ctx.mc('MC_KmerSearch', 'MC_KmerSearch_N.cfg', require_actions=acts, workers=16,
               note='find_kmers+accumulate == SigDef: all sequences <=5 over ACGTN x k 1..3 x 5 prefixes; lemmas revcomp/case invariance')
    else:
        ctx.mc_parallel([dict(module='MC_KmerSearch', cfg='MC_KmerSearch_N.cfg', require_actions=acts, workers=4,
                              overrides=dict(MaxLen=6, Shard=s, NShards=4), note=f'all sequences <=6 over ACGTN, shard {s}/4')
                         for s in range(4)], max_parallel=4)
        ctx.mc('MC_KmerSearch', 'MC_KmerSearch_Mixed.cfg', require_actions=acts, workers=16,
               note='mixed-case alphabet {A,T,c,g,a,N}, length <= 5')
    for F in FAMILIES:
        core.run_family(ctx, F())
    long_contig_check(ctx)
    run_concurrent(ctx)
    ctx.assumptions += ['k-mer indices are shipped to TLC as base-4 digit tuples (projection in harness/enc.py)',
                        'contigs longer than 5000 nt are checked through the piece lemma (whole = union of overlapping pieces judged by TLC), up to 2^20 + 3000 nt']


def replay(ctx, scen):
    if scen['family'] not in {F.name for F in FAMILIES}:
        return core.RERUN            # reported outside a judged family: replay by re-running the check
    fam = {F.name: F for F in FAMILIES}[scen['family']]()
    recs, bad = core.run_family(ctx, fam, inputs=[scen['inputs']])
    return not bad
