"""C01 - a signature is exactly the set of prefix-anchored k-mers on both strands."""
import itertools

import numpy as np
from Bio.Seq import Seq

from gambit.kmers import KmerSpec, find_kmers
from gambit.sigs.calc import calc_signature, ArrayAccumulator, SetAccumulator
from .. import core
from ..enc import blist, digits4

TYPES = {
    'bytes': lambda b: bytes(b),
    'bytearray': lambda b: bytearray(b),
    'str': lambda b: bytes(b).decode('ascii') if max(b, default=0) < 128 else None,
    'Seq': lambda b: Seq(bytes(b)),
}
ACCS = {'array': ArrayAccumulator, 'set': SetAccumulator, 'default': None}


def out_record(res, k):
    if isinstance(res, Exception):
        return dict(ok=False, err=type(res).__name__, sig=[], width=0, kind='', inrange=True)
    arr = np.asarray(res)
    vals = [int(v) for v in arr]
    return dict(ok=True, err='', sig=[digits4(v, k) for v in vals], width=int(arr.dtype.itemsize), kind=str(arr.dtype.kind),
                inrange=all(0 <= v < 4 ** k for v in vals) and arr.ndim == 1)


def sig_record(k, pre, seqs, types, accs, as_single=False):
    """Run calc_signature for every (type, accumulator) variant; identical outputs are stored once."""
    outs = {}
    kspec = KmerSpec(k, bytes(pre))
    for t in types:
        conv = [TYPES[t](s) for s in seqs]
        if any(c is None for c in conv):
            continue
        for a in accs:
            if a == 'array' and k > 12:
                continue
            try:
                acc = ACCS[a](k) if ACCS[a] else None
                arg = conv[0] if (as_single and len(conv) == 1) else iter(conv) if a == 'set' else conv
                res = calc_signature(kspec, arg, accumulator=acc)
            except Exception as e:
                res = e
            o = out_record(res, k)
            outs.setdefault(core.canon(o), (o, []))[1].append(f'{t}/{a}')
    return dict(op='sig', k=k, pre=blist(pre), seqs=[blist(s) for s in seqs],
                outs=[dict(o, variants=v) for o, v in outs.values()])


def find_record(k, pre, seq, typ):
    kspec = KmerSpec(k, bytes(pre))
    r = dict(op='find', k=k, pre=blist(pre), seqs=[blist(seq)], ok=True, err='', matches=[])
    try:
        for m in find_kmers(kspec, TYPES[typ](seq)):
            try:
                idx = m.kmer_index()
                r['matches'].append(dict(valid=True, idx=digits4(idx, k)))
            except ValueError:
                r['matches'].append(dict(valid=False, idx=[]))
    except Exception as e:
        r['ok'] = False
        r['err'] = type(e).__name__
    return r


class Fam(core.Family):
    judge = 'Judge_C01'
    procs = 16

    def execute(self, inp):
        if inp['op'] == 'find':
            return find_record(inp['k'], bytes(inp['pre']), bytes(inp['seqs'][0]), inp.get('typ', 'bytes'))
        return sig_record(inp['k'], bytes(inp['pre']), [bytes(s) for s in inp['seqs']], inp['types'], inp['accs'],
                          as_single=inp.get('single', False))

    def nontrivial(self, inp, rec):
        # non-trivial: the expected signature is non-empty (some output has >= 1 k-mer)
        if rec['op'] == 'sig':
            return core.short_hash([inp['k'], inp['pre'], inp['seqs']]) if any(o['sig'] for o in rec['outs']) else None
        return core.short_hash([inp['k'], inp['pre'], inp['seqs']]) if any(m['valid'] for m in rec['matches']) else None

    def corrupt(self, rec):
        if rec['op'] == 'sig':
            o = rec['outs'][0]
            if o['sig']:
                o['sig'] = o['sig'][:-1]           # drop the last k-mer
            else:
                o['sig'] = [[0] * rec['k']]        # invent one
            return rec
        if rec['matches'] and any(m['valid'] for m in rec['matches']):
            rec['matches'] = [m for m in rec['matches'] if not m['valid']]
            return rec
        rec['matches'].append(dict(valid=True, idx=[0] * rec['k']))
        return rec

    def describe(self, inp, rec):
        return f"k={inp['k']} prefix={bytes(inp['pre'])!r} seqs={[bytes(s) for s in inp['seqs']][:3]!r}"


KP = [(1, b'A'), (2, b'A'), (3, b'A'), (1, b'AT'), (2, b'AT'), (3, b'AT'), (1, b'AA'), (2, b'AA'), (1, b'CG'), (2, b'CG'),
      (2, b'ACA'), (1, b'T')]
ALLT = list(TYPES)
ALLA = ['array', 'set', 'default']


class ExhaustiveN(Fam):
    name = 'exhaustive-ACGTN'
    exhaustive = True

    def inputs(self, ctx):
        L = 5 if ctx.tier == 'quick' else 7
        self.rule = (f'every sequence of length <= {L} over {{A,C,G,T,N}} x 12 (k,prefix) pairs (k<=3; prefixes A, AT, AA, CG, '
                     f'ACA, T) through calc_signature as str/bytes/bytearray/Bio.Seq x Array/Set/default accumulator '
                     f'(all variants judged); non-trivial = non-empty signature')
        for n in range(0, L + 1):
            for t in itertools.product(b'ACGTN', repeat=n):
                for k, p in KP:
                    yield dict(op='sig', k=k, pre=list(p), seqs=[list(t)], types=ALLT, accs=ALLA, single=(n % 2 == 0))


class ExhaustiveMixed(Fam):
    name = 'exhaustive-mixed-case'
    exhaustive = True

    def inputs(self, ctx):
        L = 4 if ctx.tier == 'quick' else 6
        self.rule = (f'every sequence of length <= {L} over {{A,T,c,g,a,N}} x (k,prefix) in {{(1,AT),(2,A),(2,CG),(1,AA)}} '
                     f'through calc_signature (4 types x 3 accumulators) and find_kmers+kmer_index')
        for n in range(0, L + 1):
            for t in itertools.product(b'ATcgaN', repeat=n):
                for k, p in [(1, b'AT'), (2, b'A'), (2, b'CG'), (1, b'AA')]:
                    yield dict(op='sig', k=k, pre=list(p), seqs=[list(t)], types=ALLT, accs=ALLA)
                    yield dict(op='find', k=k, pre=list(p), seqs=[list(t)], typ='bytes')


def planted(rng, n, k, pre, alphabet, density):
    """random sequence with planted forward / reverse prefix occurrences (so that matches are frequent)"""
    s = bytearray(rng.choice(alphabet) for _ in range(n))
    rc = bytes({65: 84, 84: 65, 67: 71, 71: 67}[c] for c in reversed(pre))
    for _ in range(int(n * density) + rng.randint(0, 2)):
        if n < len(pre):
            break
        p = rng.randint(0, n - len(pre))
        w = pre if rng.random() < 0.5 else rc
        if rng.random() < 0.3:
            w = w.lower()
        s[p:p + len(pre)] = w
    # make matches flush with both ends now and then
    if n >= len(pre) + k and rng.random() < 0.3:
        s[0:len(pre)] = pre
    if n >= len(pre) + k and rng.random() < 0.3:
        s[n - len(pre):] = rc
    if n >= len(pre) and rng.random() < 0.2:
        s[n - len(pre):] = pre          # forward prefix with no room for a k-mer
    if n >= len(pre) and rng.random() < 0.2:
        s[0:len(pre)] = rc              # reverse prefix with no room before it
    return bytes(s)


class Random(Fam):
    name = 'random-planted'
    exhaustive = False

    def inputs(self, ctx):
        n = 1500 if ctx.tier == 'quick' else 40000
        self.rule = (f'{n} seeded random inputs: 1-4 sequences of length 0..400 (some up to 5000) over ACGT / ACGTacgtN / '
                     f'arbitrary bytes incl. bytes one bit away from a nucleotide, planted forward and reverse prefix '
                     f'occurrences (flush with either end, too close to an end), k in 1..32, prefix length 1..7; '
                     f'array accumulator for k<=10 (k=11,12 sampled), set accumulator always')
        rng = ctx.rng
        alphabets = [b'ACGT', b'ACGTacgtNn', bytes(range(256)), b'ACGT@`!Uu\xc1\xe1ac', b'AT', b'ACGTN']
        for i in range(n):
            r = rng.random()
            k = rng.choice([1, 2, 3, 4, 5, 8, 9, 11, 12, 13, 16, 17, 31, 32]) if r < 0.5 else rng.randint(1, 32)
            plen = rng.randint(1, 7) if rng.random() < 0.8 else rng.randint(1, 3)
            pre = bytes(rng.choice(b'ACGT') for _ in range(plen))
            if rng.random() < 0.15:
                pre = bytes([rng.choice(b'ACGT')]) * plen        # self-overlapping
            if rng.random() < 0.1:
                half = bytes(rng.choice(b'ACGT') for _ in range(max(1, plen // 2)))
                pre = half + bytes({65: 84, 84: 65, 67: 71, 71: 67}[c] for c in reversed(half))   # palindromic
            alpha = rng.choice(alphabets)
            nseq = rng.choice([1, 1, 1, 2, 3, 4])
            seqs = []
            for _ in range(nseq):
                ln = rng.randint(0, 400) if rng.random() < 0.97 else rng.randint(1000, 5000)
                if rng.random() < 0.1:
                    ln = rng.randint(0, len(pre) + k + 1)
                seqs.append(list(planted(rng, ln, k, pre, alpha, 0.03)))
            accs = ['set', 'default']
            if k <= 10 or (k <= 12 and i % 50 == 0):
                accs.append('array')
            yield dict(op='sig', k=k, pre=list(pre), seqs=seqs, types=ALLT, accs=accs, single=(i % 3 == 0))
            if i % 4 == 0:
                yield dict(op='find', k=k, pre=list(pre), seqs=[seqs[0]], typ=rng.choice(['bytes', 'bytearray', 'Seq']))


FAMILIES = [ExhaustiveN, ExhaustiveMixed, Random]


def run(ctx):
    acts = ['FwdFind', 'RevFind']
    if ctx.tier == 'quick':
        ctx.mc('MC_KmerSearch', 'MC_KmerSearch_N.cfg', require_actions=acts, workers=16,
               note='find_kmers+accumulate == SigDef: all sequences <=5 over ACGTN x k 1..3 x 5 prefixes; lemmas revcomp/case invariance')
    else:
        ctx.mc_parallel([dict(module='MC_KmerSearch', cfg='MC_KmerSearch_N.cfg', require_actions=acts, workers=4,
                              overrides=dict(MaxLen=6, Shard=s, NShards=4), note=f'all sequences <=6 over ACGTN, shard {s}/4')
                         for s in range(4)], max_parallel=4)
        ctx.mc('MC_KmerSearch', 'MC_KmerSearch_Mixed.cfg', require_actions=acts, workers=16,
               note='mixed-case alphabet {A,T,c,g,a,N}, length <= 5')
    for F in FAMILIES:
        core.run_family(ctx, F())
    ctx.assumptions += ['k-mer indices are shipped to TLC as base-4 digit tuples (projection in harness/enc.py)',
                        'sequences longer than 5000 nt are not explored (cost is linear; nothing in the algorithm depends on length)']


def replay(ctx, scen):
    fam = {F.name: F for F in FAMILIES}[scen['family']]()
    recs, bad = core.run_family(ctx, fam, inputs=[scen['inputs']])
    return not bad
