"""C06 - a genome's signature depends only on its biological content."""
import glob
import gzip
import os
import random
import shutil
import subprocess

import numpy as np

from gambit.kmers import KmerSpec
from gambit.seq import SequenceFile
from gambit.sigs import load_signatures
from gambit.sigs.calc import calc_file_signature, calc_signature
from .. import core, tlc
from ..enc import digits4

KS = KmerSpec(5, 'AT')
EXTS = ['.fasta', '.fa.gz', '.txt', '', '.fna', '.gz']
PY = '/venv/bin/python'


def write_file(tmp, name, data, gz):
    """gz: 0 = plain, 1 = gzip, >= 2 = gzip file with that many members"""
    from ..world import gzip_bytes
    p = os.path.join(tmp, name)
    with open(p, 'wb') as f:
        f.write(gzip_bytes(data, int(gz)) if gz else data)
    return p


def failing_read(tmp):
    """a read that fails part-way through a file (truncated gzip of a many-contig FASTA): the error is swallowed by the
    caller, as an interactive user or a long-running service would; later signatures must not be affected by it"""
    import random
    rng = random.Random(5)
    data = ''.join(f'>c{i}\nAT{"".join(rng.choice("ACGT") for _ in range(300))}\n' for i in range(60)).encode()
    p = os.path.join(tmp, 'truncated.fa.gz')
    if not os.path.exists(p):
        blob = gzip.compress(data)
        with open(p, 'wb') as f:
            f.write(blob[:len(blob) * 2 // 3])
    try:
        calc_file_signature(KS, SequenceFile(p, 'fasta', 'auto'))
        return False
    except Exception:
        return True


# the same parameters as a caller may spell them through the library interface: lower / mixed-case prefix, bytes, NumPy-typed k
KS_SPELLINGS = [KS, KmerSpec(5, 'at'), KmerSpec(5, b'aT'), KmerSpec(np.int64(5), 'At')]


def real_sig(path, k=5):
    ks = KS_SPELLINGS[sum(os.path.basename(path).encode()) % len(KS_SPELLINGS)]
    sig = calc_file_signature(ks, SequenceFile(path, 'fasta', 'auto'))
    if ks != KS or ks.prefix != KS.prefix or int(ks.k) != 5:
        raise AssertionError('equal parameters in another spelling are not equal KmerSpec objects')
    return [digits4(int(v), k) for v in sig], f'{sig.dtype.kind}{sig.dtype.itemsize}'


def rerender(records, rng):
    """a random rendering of real sequences (used for the bundled test genomes)"""
    recs = list(records)
    rng.shuffle(recs)
    comp = bytes.maketrans(b'ACGTacgt', b'TGCAtgca')
    out = []
    eol = rng.choice([b'\n', b'\r\n'])
    width = rng.choice([1, 7, 60, 61, 80, 10 ** 6])
    for i, s in enumerate(recs):
        s = bytes(s)
        if rng.random() < 0.5:
            s = s.translate(comp)[::-1]
        mode = rng.choice(['upper', 'lower', 'mixed'])
        s = s.upper() if mode == 'upper' else s.lower() if mode == 'lower' else bytes(c | 0x20 if j % 3 else c for j, c in enumerate(s.upper()))
        out.append(b'>r%d some description' % i + eol)
        for a in range(0, len(s), width):
            out.append(s[a:a + width] + eol)
    data = b''.join(out)
    if rng.random() < 0.5 and data.endswith(eol):
        data = data[:-len(eol)]
    return data


def run(ctx):
    ctx.mc('MC_FastaReader', 'MC_FastaReader.cfg', require_actions=['Byte1'], workers=16,
           note='byte-level FASTA reader over every rendering (order x orientation x case x width x EOL x final newline) of 5 small genomes: '
                'parsed records = rendered contigs; file signature = union of the original contigs; boundary witness (ASSUME)')
    ctx.mc('MC_KmerSearch', 'MC_KmerSearch_N.cfg', workers=16, overrides=dict(MaxLen=4),
           note='lemmas used here: SigDef invariant under reverse complement and case (shared with C01)')
    ctx.mc('CalcHistory', 'MC_CalcHistory.cfg', workers=8, note='a read that fails part-way must not leak into the next file (shared with C13)')
    tmp = tlc.mktmp('c06-')
    try:
        cfg = os.path.join(tmp, 'Gen_Fasta_run.cfg')
        with open(cfg, 'w') as f:
            f.write(f'CONSTANTS\n  Quick = {"TRUE" if ctx.tier == "quick" else "FALSE"}\n')
        scens, _ = tlc.generate('Gen_Fasta', cfg=cfg, timeout=3000, xmx='6g')
        bad = 0
        cli_jobs = []
        for i, sc in enumerate(scens):
            data = bytes(sc['bytes'])
            gz = [0, 1, 0, 2, 0, 3][i % 6]
            if i % 40 == 7:
                failing_read(tmp)          # an unrelated, failing read just before this one
            ext = EXTS[(i + i // 6) % len(EXTS)]       # compression never follows the name: every (extension, compression) pair occurs, plain content named *.gz too
            path = write_file(tmp, f's{i}{ext}', data, gz)
            try:
                got, dt = real_sig(path)
                err = ''
            except Exception as e:
                got, dt, err = None, '', f'{type(e).__name__}: {e}'[:100]
            ok = got == sc['sig'] and dt == 'u2'
            ctx.traces += 1
            ctx.evaluations += 1
            if sc['sig']:
                ctx.nontrivial_keys.add(('render', core.short_hash([sc['genome'], sc['rendering'], gz, ext])))
            if not ok:
                bad += 1
                ctx.report('renderings', dict(genome=sc['genome'], rendering=sc['rendering'], gzip=gz, ext=ext, bytes=sc['bytes']),
                           dict(expected=sc['sig'], observed=got, dtype=dt, err=err), ['signature-differs-from-union-of-contig-signatures'],
                           key=f'render:g{sc["genome"]}:{"gz%d" % gz if gz else "plain"}:{sc["rendering"]["case"]}:{"crlf" if sc["rendering"]["crlf"] else "lf"}:w{sc["rendering"]["width"]}',
                           describe=f'{data[:80]!r} gzip={gz} ext={ext!r} expected {len(sc["sig"])} k-mers, got {None if got is None else len(got)} {err}')
            if i % (len(scens) // 12 + 1) == 0:
                cli_jobs.append((i, path, sc))
            else:
                os.remove(path)
        ctx.families.append(dict(name='renderings', records=len(scens), rejected=bad,
                                 generator='Gen_Fasta (TLC): file bytes of every rendering + required signature'))
        ctx.add_samples([dict(family='renderings', scenario={k: v for k, v in scens[len(scens) // 3].items()})], limit=1)
        # the same through the command line (`gambit signatures create`), a sample of the renderings in one call
        if cli_jobs:
            out = os.path.join(tmp, 'cli.gs')
            cmd = [PY, '-W', 'ignore', '-m', 'gambit', 'signatures', 'create', '-k', '5', '-p', 'AT', '-o', out, '--no-progress', '-c', '2'] + [p for _, p, _ in cli_jobs]
            p = subprocess.run(cmd, stdout=subprocess.PIPE, stderr=subprocess.PIPE, text=True, cwd=tmp)
            if p.returncode != 0:
                ctx.report('cli-create', dict(files=[os.path.basename(x) for _, x, _ in cli_jobs]), dict(rc=p.returncode, stderr=p.stderr[-300:]),
                           ['signatures-create-failed'], key='cli-create:failed')
            else:
                with load_signatures(out) as sigs:
                    for j, (i, path, sc) in enumerate(cli_jobs):
                        got = [digits4(int(v), 5) for v in sigs[j]]
                        ctx.traces += 1
                        ctx.evaluations += 1
                        if got != sc['sig']:
                            ctx.report('cli-create', dict(genome=sc['genome'], rendering=sc['rendering'], file=os.path.basename(path)),
                                       dict(expected=sc['sig'], observed=got), ['signature-differs-from-union-of-contig-signatures'],
                                       key=f'cli-create:g{sc["genome"]}')
            ctx.families.append(dict(name='cli-create', records=len(cli_jobs)))
        # real genomes of the bundled test database, re-rendered at random: the signature must not change (k = 11, ATGAC)
        rng = random.Random(ctx.seed)
        from Bio import SeqIO
        genomes = sorted(glob.glob(os.path.join(os.environ.get('GAMBIT_REPO', '/repo'), 'tests/data/testdb_210818/queries/genomes/*.fasta')))[: (4 if ctx.tier == 'quick' else 20)]
        from gambit.kmers import DEFAULT_KMERSPEC
        nre = 0
        for gpath in genomes:
            base = calc_file_signature(DEFAULT_KMERSPEC, SequenceFile(gpath, 'fasta', 'auto'))
            seqs = [bytes(rec.seq) for rec in SeqIO.parse(gpath, 'fasta')]
            union = calc_signature(DEFAULT_KMERSPEC, seqs)
            for rep in range(3 if ctx.tier == 'quick' else 6):
                data = rerender(seqs, rng)
                gz = rng.choice([0, 1, 2])
                p2 = write_file(tmp, f'real{nre}{rng.choice(EXTS)}', data, gz)
                got = calc_file_signature(DEFAULT_KMERSPEC, SequenceFile(p2, 'fasta', 'auto'))
                os.remove(p2)
                nre += 1
                ctx.traces += 1
                ctx.evaluations += 1
                ctx.nontrivial_keys.add(('real', nre))
                if not (np.array_equal(got, base) and got.dtype == base.dtype and np.array_equal(base, union)):
                    ctx.report('real-genomes-rerendered', dict(genome=os.path.basename(gpath), rep=rep, seed=ctx.seed), dict(n_base=len(base), n_got=len(got)),
                               ['signature-changed-under-re-rendering'], key=f'real:{os.path.basename(gpath)}')
        ctx.families.append(dict(name='real-genomes-rerendered', records=nre))
        long_contig_files(ctx, tmp)
        ctx.rule_parts.append('[renderings] every rendering (contig order x per-contig orientation x case x line width x LF/CRLF x final newline) of '
                              '3 conformance genomes generated by TLC as file bytes with the required signature; gzip (1-3 members) and 6 file extensions '
                              'cycled independently; run through calc_file_signature (all) and `gambit signatures create` (sample); '
                              '[real-genomes-rerendered] bundled test genomes re-rendered at random; non-trivial = non-empty signature')
        ctx.exhaustive_all = ctx.tier == 'thorough'
    finally:
        shutil.rmtree(tmp, ignore_errors=True)
    ctx.assumptions += ['gzip framing is produced by Python\'s gzip module (opaque to the specification)',
                        'the expected signature is computed by TLC from the ORIGINAL contigs; the harness compares two lists of digit tuples',
                        'for the bundled real genomes the oracle is metamorphic (signature of the original file / union of per-contig signatures)']


def long_contig_files(ctx, tmp):
    """Files whose contigs are longer than 2^20 nt (chromosome-sized), one per (boundary, offset, strand) with a prefix occurrence
    planted around offsets 2^16 / 2^20.  The required signature is the union of the signatures of overlapping 2,000-nt pieces (lemma
    LemmaPieces of KmerSearch, model-checked); the piece holding the planted occurrence is judged by TLC against the definition."""
    from . import c01
    from gambit.sigs.calc import SetAccumulator
    fam = c01.LongContigs()
    n = 0
    comp = bytes.maketrans(b'ACGTacgt', b'TGCAtgca')
    sets = c01.long_contig_sets(ctx)
    for (k, pre, seed, boundaries, length) in sets[:1] if ctx.tier == 'quick' else sets[:2]:
        kspec = KmerSpec(k, pre.decode())
        rng = random.Random(seed)
        other = bytes(rng.choice(b'ACGT') for _ in range(3000))
        osig = set(int(v) for v in calc_signature(kspec, other, accumulator=SetAccumulator(k)))
        judged = []
        for vi, (label, s, union, jd) in enumerate(c01.long_contig_variants(ctx, k, pre, seed + 10, boundaries, length)):
            judged += jd
            union = union | osig
            name = ['plain', 'reordered+revcomp', 'lower'][vi % 3]
            out = []
            for i, r in enumerate([other, s] if name == 'reordered+revcomp' else [s, other]):
                if name == 'reordered+revcomp':
                    r = r.translate(comp)[::-1]
                if name == 'lower':
                    r = r.lower()
                width = [80, 61, 10 ** 7][(vi + i) % 3]
                out.append(b'>c%d\n' % i + b'\n'.join(r[a:a + width] for a in range(0, len(r), width)) + b'\n')
            path = write_file(tmp, f'long_{k}_{vi}.fa', b''.join(out), 1 if vi % 4 == 1 else 0)
            got = set(int(v) for v in calc_file_signature(kspec, SequenceFile(path, 'fasta', 'auto')))
            os.remove(path)
            n += 1
            ctx.traces += 1
            ctx.evaluations += 1
            ctx.nontrivial_keys.add(('longfile', k, label))
            if got != union:
                ctx.report('long-contig-files', dict(k=k, pre=list(pre), seed=seed, variant=label, rendering=name, length=len(s)),
                           dict(missing=sorted(union - got)[:3], extra=sorted(got - union)[:3], n_expected=len(union), n_got=len(got)),
                           ['signature-differs-from-union-of-content'], key=f'longfile:k{k}:{label}',
                           describe=f'file with a {len(s)}-nt contig (planted {label}, {name}), k={k} prefix={pre!r}: {len(union - got)} k-mers missing, {len(got - union)} extra')
        core.run_family(ctx, fam, inputs=judged)
    ctx.families.append(dict(name='long-contig-files', records=n))
    ctx.rule_parts.append('[long-contig-files] files holding a contig of 2^20+3000 nt, one per (boundary 2^16 / 2^20, offset, strand) with a prefix occurrence '
                          'planted around the boundary, rendered plain / reordered+reverse-complemented / lower-case, some gzipped: the file signature must equal the '
                          'union of the signatures of overlapping 2,000-nt pieces (piece lemma model-checked; the piece with the planted occurrence judged by TLC)')


def replay(ctx, scen):
    tmp = tlc.mktmp('c06r-')
    try:
        if scen['family'] != 'renderings':
            return core.RERUN
        inp = scen['inputs']
        path = write_file(tmp, 'replay' + inp['ext'], bytes(inp['bytes']), inp['gzip'])
        got, dt = real_sig(path)
        return got == scen['record']['expected']
    finally:
        shutil.rmtree(tmp, ignore_errors=True)
