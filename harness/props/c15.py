"""C15 - the genomic distance behaves as a metric on signatures."""
import itertools

import numpy as np

from gambit.kmers import KmerSpec
from gambit.metric import jaccarddist, jaccarddist_array, jaccarddist_matrix, jaccarddist_pairwise
from gambit.sigs import SignatureArray
from .. import core
from ..enc import f32_fields, ranks

DT3 = [('u2', 'u2', 'u2'), ('u2', 'u4', 'u8'), ('i8', 'u4', 'i2'), ('u8', 'u8', 'i8'), ('i8', 'i8', 'u8'), ('u8', 'u8', 'u8'), ('i4', 'i4', 'u2'), ('u4', 'i2', 'i8')]
WIDER = {'u2': 'u4', 'i2': 'i4', 'u4': 'u8', 'i4': 'i8', 'u8': 'u8', 'i8': 'i8'}


def triple_record(av, bv, cv, x, dts):
    ra, rb, rc, rax, rbx = ranks(av, bv, cv, sorted(av + [x]), sorted(bv + [x]))
    z = f32_fields(0.0)
    r = dict(a=ra, b=rb, c=rc, ax=rax, bx=rbx, dts=list(dts), ok=False, err='',
             d={n: z for n in ('ab', 'ba', 'ac', 'ca', 'bc', 'cb', 'wab', 'wba', 'aug', 'pab', 'pac', 'mab', 'mac', 'maa', 'mbc', 'qab', 'qac', 'lab', 'lac', 'lbc', 'lbb', 'saa', 'oab', 'oac', 'obc')})
    try:
        A = np.array(av, dtype=dts[0]); B = np.array(bv, dtype=dts[1]); C = np.array(cv, dtype=dts[2])
        Aw = A.astype(WIDER[dts[0]]); Bw = B.astype(WIDER[dts[1]])
        AX = np.array(sorted(av + [x]), dtype=WIDER[dts[0]]); BX = np.array(sorted(bv + [x]), dtype=WIDER[dts[1]])
        d = r['d']
        d['ab'] = f32_fields(jaccarddist(A, B)); d['ba'] = f32_fields(jaccarddist(B, A))
        d['ac'] = f32_fields(jaccarddist(A, C)); d['ca'] = f32_fields(jaccarddist(C, A))
        d['bc'] = f32_fields(jaccarddist(B, C)); d['cb'] = f32_fields(jaccarddist(C, B))
        d['wab'] = f32_fields(jaccarddist(Aw, B)); d['wba'] = f32_fields(jaccarddist(Bw, Aw))
        d['aug'] = f32_fields(jaccarddist(AX, BX))
        # the same two distances through the one-against-many path, references stored concatenated in THEIR integer type
        if np.dtype(dts[1]).itemsize == np.dtype(dts[2]).itemsize:
            # the reference collection is built from the two arrays AS THEY ARE (possibly one unsigned, one signed)
            refs = SignatureArray([B, C], KmerSpec(16, 'ATG'))
            from gambit._cython.threads import omp_set_num_threads
            omp_set_num_threads(1)
            row = jaccarddist_array(A, refs)
            d['pab'] = f32_fields(row[0]); d['pac'] = f32_fields(row[1])
            # the same collection re-stored in a wider integer type (copy constructor with dtype)
            wider = SignatureArray(refs, dtype=np.dtype(WIDER[dts[1]]))
            row = jaccarddist_array(A, wider)
            d['qab'] = f32_fields(row[0]); d['qac'] = f32_fields(row[1])
            if wider.kmerspec != refs.kmerspec or wider.values.dtype != np.dtype(WIDER[dts[1]]) or len(wider) != 2:
                d['qab'] = dict(d['qab'], bad='widened collection lost its parameters / type')
        else:
            d['pab'] = d['ab']; d['pac'] = d['ac']; d['qab'] = d['ab']; d['qac'] = d['ac']
        # the same distances once more through reference collections addressed by a permuted index list (matrix and all-pairs forms)
        wide = np.dtype(max((np.dtype(x) for x in dts), key=lambda t: (t.itemsize, t.kind == 'u')))
        if all(int(v) <= int(np.iinfo(wide).max) for v in list(av) + list(bv) + list(cv)):
            coll = SignatureArray([B.astype(wide), C.astype(wide), A.astype(wide), B.astype(wide)], KmerSpec(16, 'ATG'))
            # every second record holds the collection as a zero-copy WINDOW into a larger buffer (bounds[0] != 0)
            if (len(av) + len(bv) + len(cv)) % 2:
                pad = [np.asarray([1, 2, 3], dtype=wide), np.asarray([4], dtype=wide)]
                full = SignatureArray(pad + [coll[i] for i in range(4)] + pad, KmerSpec(16, 'ATG'))
                coll = SignatureArray.from_arrays(full.values, full.bounds[2:7], KmerSpec(16, 'ATG'))
                whole = jaccarddist_matrix([A], coll)[0]                               # all columns, no selection: B, C, A, B
                chunked = jaccarddist_matrix([A], coll, chunksize=3)[0]
                if [f32_fields(x) for x in whole] != [f32_fields(x) for x in chunked] or f32_fields(whole[2]) != f32_fields(0.0):
                    d['maa'] = dict(f32_fields(whole[2]), bad='window collection: plain and chunked tables disagree / d(A, A) != 0')
            row = jaccarddist_matrix([A], coll, ref_indices=[0, 2, 1, 3])[0]            # columns: B, A, C, B
            d['mab'] = f32_fields(row[0]); d['mac'] = f32_fields(row[2])
            if not d['maa'].get('bad'):
                d['maa'] = f32_fields(row[1])
            if coll.bounds[0] != 0:
                wrow = jaccarddist_matrix([A], coll)[0]
                if f32_fields(wrow[0]) != d['mab'] or f32_fields(wrow[1]) != d['mac']:
                    d['mab'] = f32_fields(wrow[0]); d['mac'] = f32_fields(wrow[1])
            sq = jaccarddist_pairwise(coll, indices=[3, 0, 2, 1])                     # rows/columns: B, B, A, C
            d['mbc'] = f32_fields(sq[1][3])
            # more selected columns than stored references (repeats), computed chunk by chunk into a caller-supplied array
            sel = [0, 2, 1, 3, 0, 2, 1, 3, 3]
            outm = np.full((1, len(sel)), -1, dtype=np.float32)
            long_row = jaccarddist_matrix([A], coll, ref_indices=sel, chunksize=2, out=outm)[0]
            want = [row[[0, 2, 1, 3].index(j)] for j in sel]
            if not (f32_fields(row[3]) == d['mab'] and f32_fields(sq[0][2]) == f32_fields(sq[2][0])
                    and [f32_fields(x) for x in long_row] == [f32_fields(x) for x in want]):
                d['mab'] = dict(d['mab'], bad='index-selected columns disagree with each other')
            # results written into CALLER-SUPPLIED arrays of other memory layouts (Fortran order, transposed view, every second column of a wider
            # array, every second cell of a vector): what the caller's array holds afterwards is the table
            two = SignatureArray([B.astype(wide), C.astype(wide)], KmerSpec(16, 'ATG'))
            three = SignatureArray([A.astype(wide), B.astype(wide), C.astype(wide)], KmerSpec(16, 'ATG'))
            cand = dict(oab=[], oac=[], obc=[])
            for mk in (lambda n, m: np.full((n, m), -1, dtype=np.float32, order='F'), lambda n, m: np.full((m, n), -1, dtype=np.float32).T,
                       lambda n, m: np.full((n, 2 * m), -1, dtype=np.float32)[:, ::2], lambda n, m: np.full((2 * n, m), -1, dtype=np.float32)[1::2]):
                o = mk(2, 2); jaccarddist_matrix([A, B], two, out=o)
                cand['oab'].append(o[0][0]); cand['oac'].append(o[0][1]); cand['obc'].append(o[1][1])
                o = mk(3, 3); jaccarddist_pairwise(three, out=o)
                cand['oab'] += [o[0][1], o[1][0]]; cand['oac'] += [o[0][2], o[2][0]]; cand['obc'] += [o[1][2], o[2][1]]
                o = mk(2, 4); jaccarddist_matrix([A, B], two, ref_indices=[1, 0, 0, 1], chunksize=3, out=o)
                cand['oab'] += [o[0][1], o[0][2]]; cand['oac'] += [o[0][0], o[0][3]]; cand['obc'] += [o[1][0], o[1][3]]
            vec = np.full(4, -1, dtype=np.float32)[::2]; jaccarddist_array(A, two, out=vec)
            cand['oab'].append(vec[0]); cand['oac'].append(vec[1])
            for nm, ref in (('oab', 'ab'), ('oac', 'ac'), ('obc', 'bc')):
                fs = [f32_fields(v) for v in cand[nm]]
                d[nm] = next((f for f in fs if f != d[ref]), fs[0])
        else:
            d['mab'] = d['ab']; d['mac'] = d['ac']; d['mbc'] = d['bc']; d['oab'] = d['ab']; d['oac'] = d['ac']; d['obc'] = d['bc']
        # all-pairs form over ONE signature, written into a caller-supplied buffer that held other values: the single cell is d(A, A) = 0
        one = np.full((1, 1), 0.75, dtype=np.float32)
        res1 = jaccarddist_pairwise(SignatureArray([A], KmerSpec(16, 'ATG')), out=one)
        res2 = jaccarddist_pairwise([B], indices=[0])
        d['saa'] = f32_fields(res1[0][0]) if float(res2[0][0]) == 0.0 else f32_fields(res2[0][0])
        # two queries against the references given as a plain list, each array in ITS OWN integer type
        lm = jaccarddist_matrix([A, B], [B, C])
        d['lab'] = f32_fields(lm[0][0]); d['lac'] = f32_fields(lm[0][1]); d['lbb'] = f32_fields(lm[1][0]); d['lbc'] = f32_fields(lm[1][1])
        r['ok'] = True
    except Exception as e:
        r['err'] = type(e).__name__
    return r


class Fam(core.Family):
    judge = 'Judge_C15'
    procs = 16

    def execute(self, inp):
        return triple_record(inp['a'], inp['b'], inp['c'], inp['x'], inp['dts'])

    def nontrivial(self, inp, rec):
        # non-trivial: three pairwise distinct sets, at least two of them overlapping
        A, B, C = set(inp['a']), set(inp['b']), set(inp['c'])
        return core.short_hash(inp) if (A != B and B != C and A != C and ((A & B) or (B & C) or (A & C))) else None

    def corrupt(self, rec):
        f = rec['d']['ba']
        if f['z']:
            rec['d']['ba'] = dict(z=False, e=-24, m=8388608, bad='')
        else:
            f['m'] = f['m'] - 1 if f['m'] > 8388608 else f['m'] + 1        # breaks bit symmetry
        return rec


class AllTriples(Fam):
    name = 'all-triples'
    exhaustive = True

    def inputs(self, ctx):
        U = 4 if ctx.tier == 'quick' else 5
        ndt = 4 if ctx.tier == 'quick' else len(DT3)
        self.rule = (f'every ordered triple of subsets of a {U}-element universe x {ndt} dtype assignments (universe placed at '
                     f'the top of the narrowest range, plus a wider-typed first set holding values congruent mod 2^16 / 2^32 to the others); six distances, two widened-dtype variants, the one-against-many path (reference collection built from a list of arrays of equal width, unsigned and signed mixed, values up to 2^63-1) and the augmented pair per record')
        subsets = [[i for i in range(U) if (m >> i) & 1] for m in range(1 << U)]
        for dts in DT3[:ndt]:
            top = min(int(np.iinfo(np.dtype(d)).max) for d in dts)
            vals = [top - U + i for i in range(U)]        # leaves `top` free as the absent k-mer x
            for sa, sb, sc in itertools.product(subsets, repeat=3):
                yield dict(a=[vals[i] for i in sa], b=[vals[i] for i in sb], c=[vals[i] for i in sc], x=top, dts=dts)
        # a query in a wider type than the references, holding values congruent (mod 2^width) to reference values
        for dts, mod in ((('u4', 'u2', 'u2'), 1 << 16), (('u8', 'u4', 'i4'), 1 << 32)):
            small = [0, 5, 9]
            wide = small + [mod + v for v in small]
            subs_w = [[wide[i] for i in range(6) if (m >> i) & 1] for m in range(64)]
            subs_s = [[small[i] for i in range(3) if (m >> i) & 1] for m in range(8)]
            for av in subs_w:
                for bv, cv in itertools.product(subs_s, repeat=2):
                    yield dict(a=av, b=bv, c=cv, x=3, dts=dts)
        # the LAST set in a wider type than the first two (a reference list whose first element is the narrow one)
        for dts, mod in ((('u2', 'u2', 'u4'), 1 << 16), (('u4', 'i4', 'u8'), 1 << 32)):
            small = [0, 5, 9]
            wide = small + [mod + v for v in small]
            subs_w = [[wide[i] for i in range(6) if (m >> i) & 1] for m in range(64)]
            subs_s = [[small[i] for i in range(3) if (m >> i) & 1] for m in range(8)]
            for cv in subs_w:
                for av, bv in itertools.product(subs_s, repeat=2):
                    yield dict(a=av, b=bv, c=cv, x=3, dts=dts)


class RandomTriples(Fam):
    name = 'random-triples'
    exhaustive = False

    def inputs(self, ctx):
        n = 600 if ctx.tier == 'quick' else 8000
        self.rule = f'{n} seeded random triples of sets with up to 2000 elements (near-equal, nested, disjoint, overlapping chains)'
        rng = np.random.default_rng(ctx.seed + 15)
        for t in range(n):
            dts = DT3[int(rng.integers(0, len(DT3)))]
            top = min(int(np.iinfo(np.dtype(d)).max) for d in dts)
            size = int(rng.integers(1, 2000 if t % 10 == 0 else 60))
            span = min(top - 1, size * 3 + 5)
            pool = [int(v) for v in rng.choice(span, size=min(span, size * 2 + 2), replace=False)]
            x = top if rng.random() < 0.5 else span + 1 if span + 1 <= top else top
            def pick():
                k = int(rng.integers(0, len(pool)))
                s = int(rng.integers(0, len(pool) - k + 1))
                return set(pool[s:s + k])
            A = pick()
            mode = int(rng.integers(0, 5))
            if mode == 0:
                B, C = set(A), pick()
            elif mode == 1:
                B = set(list(A)[:len(A) // 2]); C = set(list(A)[len(A) // 3:])
            elif mode == 2:
                B = A ^ {pool[0]}; C = B ^ {pool[-1]}          # one element apart: tiny distances, tight triangle
            else:
                B, C = pick(), pick()
            A.discard(x); B.discard(x); C.discard(x)
            yield dict(a=sorted(A), b=sorted(B), c=sorted(C), x=int(x), dts=dts)


FAMILIES = [AllTriples, RandomTriples]


def run(ctx):
    ctx.mc('JaccardMerge', 'MC_JaccardMerge.cfg', require_actions=['Step', 'Finish'], overrides=dict(U=5),
           note='the merge algorithm returns Dist32 (the function the axioms are stated about)')
    ctx.mc('MC_JaccardAxioms', 'MC_JaccardAxioms.cfg', coverage=False, workers=1,
           overrides=dict(U=4 if ctx.tier == 'quick' else 5), timeout=3000,
           note='metric axioms (exact and float32 with 48-bit fixed point) for ALL triples of subsets; AugmentDecreases for all pairs')
    for F in FAMILIES:
        core.run_family(ctx, F())
    ctx.assumptions += ['"strictly decreases when a k-mer absent from both is added to both" is read for A != B (for A = B both '
                        'distances are 0, which the statement itself requires)',
                        'rank abstraction + IEEE bit-field extraction in the harness']


def replay(ctx, scen):
    if scen['family'] not in {F.name for F in FAMILIES}:
        return core.RERUN            # reported outside a judged family: replay by re-running the check
    fam = {F.name: F for F in FAMILIES}[scen['family']]()
    recs, bad = core.run_family(ctx, fam, inputs=[scen['inputs']])
    return not bad
