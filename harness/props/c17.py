"""C17 - the tree command outputs the UPGMA dendrogram of the pairwise distances."""
import itertools
import os
import random
import shutil

import numpy as np

from gambit.kmers import KmerSpec
from gambit.sigs import SignatureArray, AnnotatedSignatures, SignaturesMeta, dump_signatures
from .. import core, tlc, cli, newick
from ..enc import blist
from .. import world as W

GRID = 21600
K, PRE = 5, 'AT'
UNIVERSE = ['CCCCC', 'CCCCG', 'CCGCC', 'GCGCG', 'GGGGG', 'CGGCC']      # k-mers without A/T: a contig AT+X yields exactly {X}


def cps(s):
    return [ord(c) for c in s]


def contigs_for(subset):
    return ['AT' + UNIVERSE[i] for i in subset] or ['GGGGCCCC']


def idx_of(x):
    v = 0
    for c in x:
        v = v * 4 + 'ACGT'.index(c)
    return v


def blank_tree():
    return dict(ok=False, leaves=[], merges=[], depths=[], paths=[], minbranch=0, binary=False, offgrid=False)


def make_record(channel, subsets, inputs, rc, out, strip, err=''):
    r = dict(channel=channel, k=K, pre=blist(PRE.encode()), from_seqs=channel != 'sigfile', rc=rc, stderr=err[-200:],
             seqs=[[blist(c.encode()) for c in contigs_for(s)] for s in subsets] if channel != 'sigfile' else [],
             sets=[[idx_of(UNIVERSE[i]) for i in s] for s in subsets] if channel == 'sigfile' else [],
             inputs=[cps(x) for x in inputs], strip=strip, tree=blank_tree())
    if rc == 0:
        try:
            t = newick.analyse(newick.parse(out), GRID)
            t['leaves'] = [cps(l if l is not None else '') for l in t['leaves']]
            t['merges'] = [dict(a=[cps(x) for x in m['a']], b=[cps(x) for x in m['b']], h=m['h']) for m in t['merges']]
            t['ok'] = True
            r['tree'] = t
        except Exception as e:
            r['tree']['err'] = f'{type(e).__name__}: {e}'[:120]
    return r


def scenarios(ctx):
    rng = random.Random(ctx.seed)
    allsub = [tuple(i for i in range(6) if (m >> i) & 1) for m in range(64)]
    fams = []
    # identical genomes, equidistant ones, nested, random
    fams.append([(0, 1), (0, 1)])
    fams.append([(0, 1), (0, 1), (0, 1, 2)])
    fams.append([(0,), (1,), (2,)])
    fams.append([(), ()])                                    # two genomes with empty signatures: distance 0
    fams.append([(), (0, 1), (), (0, 1)])
    fams.append([(), (), (2,)])
    fams.append([(0,), (), ()])
    fams.append([(0, 1), (2, 3), (4, 5), (0, 2)])
    fams.append([(0, 1), (0, 2), (3, 4), (3, 5)])          # ((a1,a2),(b1,b2)) with d(a) < d(b): cluster joined with a cluster
    fams.append([(0, 1, 2), (0, 1, 3), (4, 5), (4,)])
    fams.append([(0, 1, 2, 3), (0, 1, 2), (0, 1), (0,), ()])
    fams.append([(0, 1, 2, 3, 4, 5), (0, 1, 2, 3, 4), (1, 2, 3, 4, 5), (0, 5), (2, 3), (2, 3)])
    n_rand = 25 if ctx.tier == 'quick' else 400
    for _ in range(n_rand):
        n = rng.randint(2, 6)
        fams.append([rng.choice(allsub) for _ in range(n)])
    return fams


LABELSETS = [
    lambda i: f'g{i}', lambda i: f'sample {i}', lambda i: ['a(1)', 'b,2', "c'3", 'd:4', 'e;5', 'f_6'][i], lambda i: f'ü-{i}-✓',
]


def run(ctx):
    ctx.mc('Upgma', 'MC_Upgma.cfg', require_actions=['MergeAny'], workers=8,
           note='every behaviour of the nondeterministic average-linkage relation on all metric integer matrices over 4 leaves with '
                'entries 0..2 (zeros and ties): heights never decrease, clusters partition the leaves, n-1 merges, cophenetic heights ultrametric')
    tmp = tlc.mktmp('c17-')
    try:
        jobs, metas = [], []
        ks = KmerSpec(K, PRE)
        for si, subsets in enumerate(scenarios(ctx)):
            n = len(subsets)
            d = os.path.join(tmp, f's{si}')
            os.makedirs(d)
            channel = ['files', 'sigfile', 'list', 'sigfile-int'][si % 4]
            if channel in ('files', 'list'):
                exts = ['.fasta', '.fa.gz', '.fna', '.fa', '', '.txt', '.fa.fasta', '.fna.fasta.gz', '.fasta.fa']       # incl. stacked extensions: only ONE is stripped
                names = [f'genome{i}{exts[(i + si) % len(exts)]}' for i in range(n)]
                paths = [W.write_fasta(os.path.join(d, 'in', nm), contigs_for(s), gz=nm.endswith('.gz'), mixed=(j % 2 == 1), lower=(j % 5 == 4),
                                       members=[2, 3, 2, 1][(si // 2) % 4], width=[60, 11, 1000][(j + si) % 3], eol=['\n', '\r\n'][(j + si // 2) % 2], final_eol=bool((j + si) % 4))
                         for j, (nm, s) in enumerate(zip(names, subsets))]          # upper-case, soft-masked (mixed) and lower-case files side by side
                if si % 3 == 1:
                    # the first input is given through a symbolic link with another base name: the label comes from the name given
                    os.makedirs(os.path.join(d, 'store'), exist_ok=True)
                    target = os.path.join(d, 'store', 'blob_0001.fasta' + ('.gz' if names[0].endswith('.gz') else ''))
                    os.replace(paths[0], target)
                    os.symlink(target, paths[0])
                if channel == 'files':
                    args = ['tree', '--no-progress', '-k', str(K), '-p', PRE] + ([] if si % 8 else ['-c', '1']) + paths
                    inputs = paths
                else:
                    lf = os.path.join(d, 'list.txt')
                    cli.write_listfile(lf, names, si // 4)          # every rendering style of ListFile!Styles in turn
                    args = ['tree', '--no-progress', '-k', str(K), '-p', PRE.lower(), '-l', lf, '--ldir', os.path.join(d, 'in'), '-c', ['2', '1', '16'][(si // 2) % 3]]
                    inputs = names
                strip = True
            else:
                if channel == 'sigfile' and (si // 4) % 2 == 1:
                    # a signature file computed with k = 20 (64-bit indices that differ only ABOVE bit 32), while the command line carries
                    # the default / another k: the tree comes from the stored signatures whatever their integer type
                    wide = KmerSpec(20, 'ATGAC')
                    sigs = SignatureArray([np.array(sorted((idx_of(UNIVERSE[i]) + 1) * (1 << 33) + 7 for i in s), dtype=wide.index_dtype) for s in subsets], wide)
                else:
                    sigs = SignatureArray([np.array(sorted(idx_of(UNIVERSE[i]) for i in s), dtype=ks.index_dtype) for s in subsets], ks)
                sf = os.path.join(d, 'sigs.gs')
                if channel == 'sigfile':
                    labf = LABELSETS[si % len(LABELSETS)]
                    ids = [labf(i) for i in range(n)]
                    dump_signatures(sf, AnnotatedSignatures(sigs, ids, SignaturesMeta()))
                    inputs = ids
                else:
                    dump_signatures(sf, sigs)              # default integer ids 0..n-1
                    inputs = [str(i) for i in range(n)]
                args = ['tree', '--no-progress', '-s', sf]
                strip = False
            jobs.append((args, dict(cwd=d)))
            metas.append((channel if channel != 'sigfile-int' else 'sigfile', subsets, inputs, strip, channel))
        results = cli.run_many(jobs)
        recs = [make_record(ch, subs, inputs, rc, out, strip, err) for (ch, subs, inputs, strip, _), (rc, out, err) in zip(metas, results)]
        n, bad = tlc.judge('Judge_C17', recs)
        for i, why in bad:
            ch = metas[i][4]
            ctx.report('tree', dict(channel=ch, subsets=[list(s) for s in metas[i][1]], inputs=metas[i][2]), dict(recs[i], seqs='(omitted)'), why,
                       key=f'tree:{ch}:{why[0] if why else ""}' + (':n>=4' if len(metas[i][1]) >= 4 else ''),
                       describe=f'{ch} n={len(metas[i][1])} subsets={metas[i][1]} rc={recs[i]["rc"]} {recs[i]["stderr"][-150:]!r} merges={recs[i]["tree"]["merges"][:3]}')
        ctx.traces += n
        ctx.evaluations += n
        for m, r in zip(metas, recs):
            if len(m[1]) >= 3:
                ctx.nontrivial_keys.add(('tree', core.short_hash([m[4], m[1], m[2]])))
        ctx.families.append(dict(name='tree', records=n, rejected=len(bad), judge='Judge_C17'))
        ctx.add_samples([dict(family='tree', record={k: v for k, v in recs[4].items() if k != 'seqs'})], limit=1)
        ctx.rule_parts.append('[tree] genome sets of 2..6 members (identical genomes = zero distances, equidistant ones, nested, cluster-joins-cluster, '
                              'random subsets of a 6-k-mer universe) through `gambit tree` by positional files, list file + base directory, '
                              'signature file with string ids (incl. labels needing Newick quoting, Unicode) and with default integer ids; the '
                              'Newick text is parsed by the harness\'s own parser and TLC replays the merges on the exact distance matrix; '
                              'non-trivial = >= 3 leaves')
        ctx.exhaustive_all = False
        good = next(r for r in recs if r['tree']['ok'] and len(r['tree']['merges']) >= 2)
        import copy
        c1 = copy.deepcopy(good); c1['tree']['merges'][-1]['h'] += 1
        c2 = copy.deepcopy(good); c2['tree']['depths'][0] += 3
        c3 = copy.deepcopy(good); c3['tree']['leaves'][0] = cps('zzz')
        _, b2 = tlc.judge('Judge_C17', [c1, c2, c3], shards=1)
        ctx.selftests.append(dict(family='tree', corrupted=3, rejected=len({i for i, _ in b2})))
        if len({i for i, _ in b2}) != 3:
            raise tlc.MachineryError('self-test: Judge_C17 accepted a wrong height / unequal depth / wrong leaf')
    finally:
        shutil.rmtree(tmp, ignore_errors=True)
    ctx.assumptions += ['heights are snapped to the grid 1/21600 (every exact UPGMA height is on it for <= 6 k-mers per union and <= 6 leaves); a printed '
                        'value further than 0.02 units (1e-6) from the grid is reported as off-grid',
                        'the implementation clusters float32 distances in double arithmetic and prints %1.8g; exact-arithmetic ties may be broken either way (the spec is nondeterministic on ties)']


replay = core.RERUN
