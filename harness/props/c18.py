"""C18 - using a reference database never modifies it."""
import hashlib
import os
import shutil
from concurrent.futures import ThreadPoolExecutor

from .. import core, tlc, cli
from .. import world as W

BUNDLED = os.path.join(os.environ.get('GAMBIT_REPO', '/repo'), 'tests/data/testdb_210818')


def snapshot(d):
    out = {}
    for name in sorted(os.listdir(d)):
        p = os.path.join(d, name)
        if os.path.isfile(p):
            h = hashlib.sha256()
            with open(p, 'rb') as f:
                for blk in iter(lambda: f.read(1 << 20), b''):
                    h.update(blk)
            out[name] = (os.path.getsize(p), h.hexdigest())
        else:
            out[name] = ('dir', '')
    return out


class Replayer:
    """replays one TLC-generated history on a private copy of a database directory"""

    def __init__(self, base, dbsrc, files, good_sigs, foreign_sigs, kspec, idx):
        self.work = os.path.join(base, f'h{idx}')
        os.makedirs(self.work)
        self.db = os.path.join(self.work, 'db')
        shutil.copytree(dbsrc, self.db)
        self.files, self.good_sigs, self.foreign_sigs, self.kspec = files, good_sigs, foreign_sigs, kspec
        self.base0 = snapshot(self.db)
        self.dbobj = None
        self.session = None
        self.n = 0

    def cli(self, args):
        rc, so, se = cli.run_cli(args, cwd=self.work)
        return 'ok' if rc == 0 else 'error', se[-160:]

    def step(self, c):
        self.n += 1
        out = os.path.join(self.work, f'out{self.n}')
        k, p = self.kspec
        try:
            if c == 'cli_query':
                return self.cli(['-d', self.db, 'query', '--no-progress', '-o', out] + self.files[:2])
            if c == 'cli_query_sigs':
                return self.cli(['-d', self.db, 'query', '--no-progress', '-o', out, '-s', self.good_sigs])
            if c == 'cli_query_strict_json':
                return self.cli(['-d', self.db, 'query', '--no-progress', '--strict', '-f', 'json', '-o', out, '-c', '2'] + self.files[1:3])
            if c == 'cli_dist_usedb':
                return self.cli(['-d', self.db, 'dist', '--no-progress', '--use-db', '-q', self.files[0], '-o', out])
            if c == 'cli_siginfo_db':
                return self.cli(['-d', self.db, 'signatures', 'info', '-d'])
            if c == 'cli_siginfo_db_ids':
                return self.cli(['-d', self.db, 'signatures', 'info', '-d', '-i'])
            if c == 'cli_create_dbparams':
                return self.cli(['-d', self.db, 'signatures', 'create', '--db-params', '--no-progress', '-o', out + '.gs'] + self.files[:2])
            if c == 'cli_tree':
                return self.cli(['-d', self.db, 'tree', '--no-progress', '-k', str(k), '-p', p] + self.files[:3])
            if c == 'cli_query_missing_file':
                return self.cli(['-d', self.db, 'query', '--no-progress', '-o', out, os.path.join(self.work, 'does-not-exist.fasta')])
            if c == 'cli_dist_bad_params':
                return self.cli(['-d', self.db, 'dist', '--no-progress', '--use-db', '-k', str(k + 1), '-p', p, '-q', self.files[0], '-o', out])
            if c == 'cli_query_foreign_sigs':
                return self.cli(['-d', self.db, 'query', '--no-progress', '-o', out, '-s', self.foreign_sigs])
            from gambit.db import ReferenceDatabase, Taxon, AnnotatedGenome, Genome
            if c == 'lib_load':
                self.dbobj = ReferenceDatabase.load_from_dir(self.db)
                self.session = self.dbobj.session
                return 'ok', ''
            if c in ('lib_load_ctx', 'lib_load_ctx_engine_first'):
                # the command line's own way to the database: its context object, whose engine and session maker are created lazily
                from types import SimpleNamespace
                from gambit.cli.common import CLIContext
                cc = CLIContext(SimpleNamespace(params=dict(db_path=self.db)))
                if c == 'lib_load_ctx_engine_first':
                    with cc.engine.connect() as con:          # somebody looks at the raw engine first (as `gambit debug shell` allows)
                        con.exec_driver_sql('SELECT count(*) FROM genomes').fetchall()
                else:
                    cc.Session
                self.dbobj = cc.get_database()
                self.session = self.dbobj.session
                return 'ok', ''
            if c == 'lib_other_sigfile_rw':
                from gambit.sigs import load_signatures
                other = os.path.join(self.work, f'other_{self.n}.gs')
                shutil.copy(self.good_sigs, other)
                with load_signatures(other, mode='r+') as sg:
                    _ = sg[0], len(sg)
                return 'ok', ''
            if c in ('lib_other_rw_reader', 'lib_other_ro_reader'):
                from gambit.db.sqla import file_sessionmaker
                import glob as _g
                gdb = [f for f in _g.glob(os.path.join(self.db, '*')) if f.endswith(('.gdb', '.db'))][0]
                maker = file_sessionmaker(gdb, readonly=(c == 'lib_other_ro_reader'))
                s2 = maker()
                s2.query(Genome).count()
                s2.close()
                return 'ok', ''
            s = self.session
            if c == 'lib_edit':
                t = s.query(Taxon).first()
                t.name = t.name + 'x'
            elif c == 'lib_add':
                s.add(Taxon(key=f'new{self.n}', name='added', genome_set_id=self.dbobj.genomeset.id))
            elif c == 'lib_delete':
                s.delete(s.query(AnnotatedGenome).first())
            elif c == 'lib_flush':
                s.flush()
            elif c == 'lib_commit':
                s.commit()
            elif c == 'lib_begin_block':
                with s.begin():
                    pass
            elif c == 'lib_begin_nested':
                s.begin_nested()
            elif c == 'lib_rollback':
                s.rollback()
            elif c == 'lib_query':
                s.query(Genome).count()
            elif c == 'lib_bulk_update':
                t = s.query(Taxon).first()
                s.query(Taxon).filter(Taxon.id == t.id).update({'name': 'renamed in bulk'}, synchronize_session=False)
            elif c == 'lib_execute_update':
                from sqlalchemy import update as _upd
                s.execute(_upd(Genome).values(description='overwritten by a statement'))
            elif c == 'lib_tree_walk':
                gset = self.dbobj.genomeset
                for root in gset.root_taxa():
                    for t in root.traverse():
                        t.genomes.count()
                    list(root.leaves()); list(root.descendants(postorder=True)); list(root.subtree_genomes())[:3]
            elif c == 'lib_read_sigs':
                sig = self.dbobj.signatures
                _ = sig[0], sig[len(sig) - 1], sig[0:2], sig.ids[0], sig.meta
            elif c == 'lib_close':
                s.close()
                self.dbobj.signatures.close()
                self.session = self.dbobj = None
            return 'ok', ''
        except Exception as e:
            return 'error', f'{type(e).__name__}: {e}'[:160]

    def pending(self):
        s = self.session
        if s is None:
            return dict(new=False, dirty=False, deleted=False)
        return dict(new=bool(s.new), dirty=bool(s.dirty), deleted=bool(s.deleted))

    def run(self, hist):
        obs = []
        for j, st in enumerate(hist):
            outcome, detail = self.step(st['cmd'])
            snap = snapshot(self.db)
            journal = [n for n in snap if n.endswith('-journal')]
            for n in journal:
                snap.pop(n)                    # SQLite's rollback journal: judged by its own clause
            sidecar = [n for n in snap if n.endswith(('-wal', '-shm'))]
            for n in sidecar:
                snap.pop(n)                    # companions of a WAL-mode genome file while a connection is open: own clause
            ob = dict(step=j, cmd=st['cmd'], outcome=outcome, detail=detail, unchanged=(snap == self.base0), listing=sorted(snap), pending=self.pending(),
                      journal=bool(journal), sidecar=bool(sidecar))
            problems = []
            if not ob['unchanged']:
                changed = [n for n in set(snap) | set(self.base0) if snap.get(n) != self.base0.get(n)]
                ob['changed'] = sorted(changed)
                problems.append('changed')
            ob['problems'] = problems
            obs.append(ob)
            if 'changed' in ob:
                break
        if self.session is not None:
            try:
                self.session.close(); self.dbobj.signatures.close()
            except Exception:
                pass
        return obs


def prepare(tmp, seed):
    """tiny synthetic database + query material; also the bundled test database if its query genomes are present"""
    w = W.default_world(seed)
    tiny = os.path.join(tmp, 'tinydb')
    W.build_db(tiny, w)
    pool = W.query_pool(w, seed + 1)
    files = [W.write_fasta(os.path.join(tmp, 'q', f'{q["name"]}.fasta'), q['contigs']) for q in pool[:4]]
    from gambit.kmers import KmerSpec
    from gambit.sigs import SignatureArray, dump_signatures
    good = os.path.join(tmp, 'good.gs')
    dump_signatures(good, SignatureArray([W.real_signature(w['kspec'], q['contigs']) for q in pool[:3]], KmerSpec(*w['kspec'])))
    foreign = os.path.join(tmp, 'foreign.gs')
    dump_signatures(foreign, SignatureArray([W.real_signature([7, 'ATG'], q['contigs']) for q in pool[:3]], KmerSpec(7, 'ATG')))
    envs = [dict(name='tiny', db=tiny, files=files, good=good, foreign=foreign, kspec=tuple(w['kspec']))]
    # damaged / unusual genome files: commands may fail on them, but read-side use must still not write a byte
    import sqlite3
    for name, how in (('no-taxa-table', 'drop-taxa'), ('empty-genome-file', 'empty'), ('foreign-sqlite', 'foreign')):
        d = os.path.join(tmp, 'db_' + name)
        shutil.copytree(tiny, d)
        g = os.path.join(d, 'ref.gdb')
        if how == 'drop-taxa':
            con = sqlite3.connect(g)
            con.execute('UPDATE genome_annotations SET taxon_id = NULL')
            con.execute('DROP TABLE taxa')
            con.commit(); con.execute('VACUUM'); con.close()
        elif how == 'empty':
            open(g, 'wb').close()
        else:
            os.remove(g)
            con = sqlite3.connect(g)
            con.execute('CREATE TABLE notes (id INTEGER PRIMARY KEY, body TEXT)')
            con.execute("INSERT INTO notes (body) VALUES ('not a gambit database')")
            con.commit(); con.close()
        envs.append(dict(name=name, db=d, files=files, good=good, foreign=foreign, kspec=tuple(w['kspec']), lenient=True))
    # a genome file in WAL journal mode (the one mode recorded in the file itself), cleanly checkpointed
    d = os.path.join(tmp, 'db_wal')
    shutil.copytree(tiny, d)
    con = sqlite3.connect(os.path.join(d, 'ref.gdb'))
    con.execute('PRAGMA journal_mode=WAL')
    con.execute('CREATE TABLE IF NOT EXISTS _touch (x)'); con.execute('DROP TABLE _touch'); con.commit()
    con.execute('PRAGMA wal_checkpoint(TRUNCATE)')
    con.close()
    for f in os.listdir(d):
        if f.endswith(('-wal', '-shm')):
            os.remove(os.path.join(d, f))
    envs.append(dict(name='wal-mode', db=d, files=files, good=good, foreign=foreign, kspec=tuple(w['kspec']), extra_env=True))
    import glob
    bq = sorted(glob.glob(os.path.join(BUNDLED, 'queries', 'genomes', '*.fasta')))[:4]
    if os.path.exists(os.path.join(BUNDLED, 'ref-genomes.gdb')) and len(bq) >= 3:
        bdb = os.path.join(tmp, 'bundled')
        os.makedirs(bdb)
        shutil.copy(os.path.join(BUNDLED, 'ref-genomes.gdb'), bdb)
        shutil.copy(os.path.join(BUNDLED, 'ref-signatures.gs'), bdb)
        from gambit.sigs.calc import calc_file_signatures
        from gambit.seq import SequenceFile
        from gambit.sigs import load_signatures
        with load_signatures(os.path.join(bdb, 'ref-signatures.gs')) as rs:
            bks = rs.kmerspec
        bgood = os.path.join(tmp, 'bgood.gs')
        dump_signatures(bgood, calc_file_signatures(bks, SequenceFile.from_paths(bq[:2], 'fasta', 'auto'), concurrency=None))
        envs.append(dict(name='bundled', db=bdb, files=bq, good=bgood, foreign=foreign, kspec=(bks.k, bks.prefix_str)))
    return envs


def run(ctx):
    big = ctx.tier == 'thorough'
    ctx.mc('DbWorld', 'MC_DbWorld.cfg', require_actions=['Step'], workers=8, overrides=dict(MaxDepth=6 if not big else 9),
           note='all command / library-call histories: database files and directory listing never change, nothing is ever emitted to the connection')
    ctx.mc('DbWorld', 'MC_DbWorld.cfg', expect='NeverEmits', overrides=dict(SessionClass='"plain"'), note='negative control: an ordinary session flushes and commits')
    ctx.mc('DbWorld', 'MC_DbWorld.cfg', expect='NeverEmits', overrides=dict(SessionClass='"flush-unless-new-or-dirty"'),
           note='negative control: a flush guard that forgets pending deletions')
    ctx.mc('DbWorld', 'MC_DbWorld.cfg', expect='Immutable', overrides=dict(H5Mode='"r+"'), note='negative control: signature file opened for update')
    ctx.mc('DbWorld', 'MC_DbWorld.cfg', expect='Immutable', overrides=dict(SessionClass='"readonly-autocommit"'),
           note='negative control: a connection in autocommit mode lets statement-level writes through although flush and commit are blocked')
    num = 24 if not big else 200
    res = tlc.run_tlc('DbWorld', 'Gen_DbWorld.cfg', workers=1, timeout=1500, extra=['-simulate', f'num={num}', '-depth', '9', '-seed', str(ctx.seed % 100000)])
    hists = list({core.canon(h): h for h in res.printed if isinstance(h, list) and h and isinstance(h[0], dict) and 'cmd' in h[0]}.values())
    # plus hand-picked library-heavy histories every run must include (still judged against the generated expectations' rules)
    must = [['lib_load', 'lib_tree_walk', 'lib_close', 'lib_load', 'lib_tree_walk', 'lib_rollback', 'lib_query', 'lib_close'],
            ['lib_other_rw_reader', 'lib_load', 'lib_edit', 'lib_flush', 'lib_commit', 'lib_query', 'lib_close'],
            ['lib_other_ro_reader', 'lib_other_rw_reader', 'lib_load', 'lib_delete', 'lib_flush', 'lib_begin_block', 'lib_close', 'lib_load', 'lib_add', 'lib_commit'],
            ['lib_load', 'lib_delete', 'lib_flush', 'lib_begin_block', 'lib_query', 'lib_close'],
            ['lib_load', 'lib_query', 'lib_bulk_update', 'lib_commit', 'lib_flush', 'lib_close', 'cli_query'],
            ['lib_load', 'lib_begin_nested', 'lib_bulk_update', 'lib_commit', 'lib_close', 'cli_query'],
            ['lib_load', 'lib_edit', 'lib_begin_nested', 'lib_execute_update', 'lib_commit', 'lib_flush', 'lib_begin_nested', 'lib_commit', 'lib_query', 'lib_close', 'cli_query'],
            ['lib_load_ctx_engine_first', 'lib_edit', 'lib_flush', 'lib_commit', 'lib_query', 'lib_close'],
            ['lib_other_sigfile_rw', 'lib_load', 'lib_read_sigs', 'lib_query', 'lib_close', 'lib_other_sigfile_rw', 'lib_load_ctx', 'lib_read_sigs', 'lib_close'],
            ['lib_load_ctx', 'lib_delete', 'lib_flush', 'lib_commit', 'lib_close', 'lib_load_ctx_engine_first', 'lib_add', 'lib_query', 'lib_begin_block', 'lib_close'],
            ['lib_load', 'lib_execute_update', 'lib_begin_block', 'cli_query', 'lib_rollback', 'lib_bulk_update', 'lib_close', 'lib_load', 'lib_query', 'lib_close'],
            ['lib_load', 'lib_edit', 'lib_flush', 'lib_commit', 'lib_query', 'lib_rollback', 'lib_read_sigs', 'lib_close'],
            ['lib_load', 'lib_add', 'lib_query', 'lib_commit', 'lib_begin_block', 'lib_close', 'cli_query'],
            ['lib_load', 'lib_delete', 'lib_query', 'lib_begin_block', 'lib_close', 'cli_siginfo_db'],
            ['cli_query', 'cli_query_missing_file', 'cli_dist_usedb', 'cli_dist_bad_params', 'cli_query_sigs', 'cli_query_foreign_sigs', 'cli_siginfo_db_ids', 'cli_create_dbparams'],
            ['cli_query_strict_json', 'cli_tree', 'lib_load', 'lib_read_sigs', 'cli_query', 'lib_edit', 'lib_flush', 'lib_close']]
    for cmds in must:
        hists.append([dict(cmd=c) for c in cmds])      # judged step by step by TLC (Judge_C18) like the generated ones
    tmp = tlc.mktmp('c18-')
    try:
        envs = prepare(tmp, ctx.seed)
        jobs = []
        sound = [e for e in envs if not e.get('lenient') and not e.get('extra_env')]
        for i, h in enumerate(hists):
            jobs.append((i, h, sound[i % len(sound)]))
        # damaged / foreign genome files: the hand-picked histories and a few generated ones on each
        for e in envs:
            if e.get('lenient') or e.get('extra_env'):
                for h in hists[-len(must):] + hists[:4]:
                    jobs.append((len(jobs), h, e))

        def one(job):
            i, h, env = job
            rp = Replayer(tmp, env['db'], env['files'], env['good'], env['foreign'], env['kspec'], i)
            try:
                return rp.run(h)
            finally:
                shutil.rmtree(rp.work, ignore_errors=True)
                import gc
                gc.collect()          # connections of failed loads are finalised in the thread that made them
        with ThreadPoolExecutor(10) as ex:
            all_obs = list(ex.map(one, jobs))
        nsteps = sum(len(o) for o in all_obs)
        recs = [dict(db=env['name'], lenient=bool(env.get('lenient')), steps=[dict(cmd=o['cmd'], outcome=o['outcome'], pending=o['pending'], unchanged=o['unchanged'], journal=o['journal'], sidecar=o['sidecar']) for o in obs])
                for (i, h, env), obs in zip(jobs, all_obs)]
        n_j, bad = tlc.judge('Judge_C18', recs)
        for i, why in bad:
            (_, h, env), obs = jobs[i], all_obs[i]
            cmds = [s['cmd'] for s in h]
            first = next((o for k, o in enumerate(obs) if not o['unchanged'] or o['outcome'] == 'error' and o['cmd'] not in ('lib_commit', 'lib_begin_block', 'cli_query_missing_file', 'cli_dist_bad_params', 'cli_query_foreign_sigs')), obs[-1])
            ctx.report('history-replay', dict(db=env['name'], cmds=cmds), dict(observations=obs), why,
                       key=f'history:{first["cmd"]}:{why[0] if why else ""}',
                       describe=f'db={env["name"]} cmds={cmds[:len(obs)]} at {first["cmd"]}: {first.get("changed", "")} {first["detail"]}')
        ctx.traces += n_j
        ctx.evaluations += n_j
        for (i, h, env) in jobs:
            ctx.nontrivial_keys.add(('hist', core.short_hash([s['cmd'] for s in h])))
        import copy
        g = copy.deepcopy(next(r for r in recs if any(s['cmd'] == 'lib_flush' for s in r['steps'])))
        k = next(j for j, s in enumerate(g['steps']) if s['cmd'] == 'lib_flush')
        c1 = copy.deepcopy(g); c1['steps'][k]['pending'] = dict(new=False, dirty=False, deleted=False) if any(c1['steps'][k]['pending'].values()) else dict(new=True, dirty=False, deleted=False)
        c2 = copy.deepcopy(g); c2['steps'][-1]['unchanged'] = False
        c3 = copy.deepcopy(next(r for r in recs if any(s['cmd'] == 'lib_commit' for s in r['steps'])))
        for s_ in c3['steps']:
            if s_['cmd'] == 'lib_commit':
                s_['outcome'] = 'ok'
        _, b2 = tlc.judge('Judge_C18', [c1, c2, c3], shards=1)
        ctx.selftests.append(dict(family='history-replay', corrupted=3, rejected=len({i for i, _ in b2})))
        if len({i for i, _ in b2}) != 3:
            raise tlc.MachineryError('self-test: Judge_C18 accepted a flushed change / a modified file / a successful commit')
        ctx.families.append(dict(name='history-replay', records=len(jobs), steps=nsteps, generator='DbWorld (TLC -simulate, Record=TRUE)',
                                 databases=[e['name'] for e in envs]))
        ctx.add_samples([dict(family='history-replay', history=[s['cmd'] for s in hists[0]], observed=all_obs[0][:3])], limit=1)
        ctx.rule_parts.append(f'[history-replay] {len(jobs)} command / library-call histories of depth 6-8 generated by TLC from DbWorld (random walks + six '
                              f'library-heavy ones) replayed on private copies of the synthetic database and of the bundled test database; after EVERY '
                              f'step: sha256 and size of every file and the directory listing equal the initial ones, the exit class is one the model '
                              f'allows (commit must raise, failing commands must fail), and the session\'s pending new/dirty/deleted sets equal the model\'s '
                              f'(a flush that really flushes is seen at once)')
        ctx.exhaustive_all = False
    finally:
        shutil.rmtree(tmp, ignore_errors=True)
    ctx.assumptions += ['whether `with session.begin()` raises depends on the ORM\'s transaction bookkeeping: either outcome is accepted, the files must not change',
                        'content identity is sha256 + size of every regular file in the database directory']


def expect_from_model(cmds):
    """expectations for a fixed command sequence, mirroring DbWorld!Step for SessionClass = readonly (used only when the random
    walk of the generator did not produce that exact sequence)"""
    pend = dict(new=False, dirty=False, deleted=False)
    out = []
    failing = {'cli_query_missing_file', 'cli_dist_bad_params', 'cli_query_foreign_sigs'}
    for c in cmds:
        if c == 'lib_edit':
            pend = dict(pend, dirty=True)
        elif c == 'lib_add':
            pend = dict(pend, new=True)
        elif c == 'lib_delete':
            pend = dict(pend, deleted=True)
        elif c in ('lib_rollback', 'lib_close', 'lib_load', 'lib_load_ctx', 'lib_load_ctx_engine_first', 'lib_begin_block'):
            pend = dict(new=False, dirty=False, deleted=False)
        outcome = ['error'] if c in failing or c == 'lib_commit' else ['ok', 'error'] if c == 'lib_begin_block' else ['ok']
        out.append(dict(cmd=c, outcome=outcome, pending=dict(pend), pending_any=(c == 'lib_begin_block')))
    return out


def replay(ctx, scen):
    tmp = tlc.mktmp('c18r-')
    try:
        envs = prepare(tmp, ctx.seed)
        env = next(e for e in envs if e['name'] == scen['inputs']['db'])
        rp = Replayer(tmp, env['db'], env['files'], env['good'], env['foreign'], env['kspec'], 0)
        obs = rp.run(scen['record']['expected'])
        return not obs[-1]['problems']
    finally:
        shutil.rmtree(tmp, ignore_errors=True)
