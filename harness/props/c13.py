"""C13 - multi-file signature computation keeps file order under every completion order."""
import gzip
import os
import shutil
import threading
import time
from concurrent.futures import Executor, Future, ThreadPoolExecutor, ProcessPoolExecutor

import numpy as np

from gambit.kmers import KmerSpec
from gambit.seq import SequenceFile
from gambit.sigs.calc import calc_file_signature, calc_file_signatures
from gambit.util.progress import AbstractProgressMeter
from .. import core, tlc

KS = KmerSpec(9, 'AT')


SIZES = [3000, 400, 9000, 1500, 6000, 800, 12000, 200]


def write_genomes(tmp, n, skew=False, seed=0, sizes=None):
    """n FASTA files with pairwise distinct signatures; with skew, earlier files are much larger (finish later);
    otherwise sizes follow a non-monotone pattern (medium, small, large, ...)."""
    import random
    rng = random.Random(seed)
    paths = []
    for i in range(n):
        size = sizes[i] if sizes else (400 + 40000 * (n - i) if skew else SIZES[i % len(SIZES)] + 7 * (i // len(SIZES)))
        body = ''.join(rng.choice('ACGT') for _ in range(size))
        marker = 'AT' + ''.join('ACGT'[(i >> (2 * j)) & 3] for j in range(9)) + 'N'      # a k-mer unique to file i
        seq = marker + body
        p = os.path.join(tmp, f'f{i}.fa' + ('.gz' if i % 3 == 2 else ''))
        data = f'>c{i}\n{seq}\n'.encode()
        with open(p, 'wb') as f:
            f.write(gzip.compress(data) if p.endswith('.gz') else data)
        paths.append(p)
    return paths


def bad_file(tmp, kind, name='bad'):
    p = os.path.join(tmp, name)
    if kind == 'missing':
        return p + '.fa'
    if kind == 'directory':
        os.makedirs(p + '.fa', exist_ok=True)
        return p + '.fa'
    if kind == 'corrupt-gzip':
        with open(p + '.fa.gz', 'wb') as f:
            f.write(gzip.compress(b'>c\n' + b'ACGT' * 5000)[:60])
        return p + '.fa.gz'
    raise ValueError(kind)


def seqfiles(paths):
    return SequenceFile.from_paths(paths, 'fasta', 'auto')


class Meter(AbstractProgressMeter):
    def __init__(self, total, on_inc):
        self.total = total
        self.n = 0
        self.on_inc = on_inc
        self.closed = 0

    @classmethod
    def create(cls, total, *, initial=0, **kw):
        raise NotImplementedError

    def increment(self, delta=1):
        self.n += delta
        self.on_inc()

    def moveto(self, n):
        self.n = n

    def close(self):
        self.closed += 1


class Controlled(Executor):
    """Caller-supplied executor whose futures complete one at a time in a prescribed order.  The scheduler thread
    completes the next future only after the main thread has collected the previous one (signalled by the progress
    meter increment that follows the collection), so the as_completed order IS the prescribed order."""

    def __init__(self, order, total):
        self.order = [i - 1 for i in order]
        self.total = total
        self.tasks = {}
        self.futures = []
        self.inc = threading.Semaphore(0)
        self.stop = threading.Event()
        self.was_shutdown = False
        self.thread = None

    def submit(self, fn, *args, **kw):
        f = Future()
        self.tasks[len(self.futures)] = (fn, args, kw)
        self.futures.append(f)
        if len(self.futures) == self.total:
            self.thread = threading.Thread(target=self._run, daemon=True)
            self.thread.start()
        return f

    def _run(self):
        for i in self.order:
            fn, args, kw = self.tasks[i]
            f = self.futures[i]
            f.set_running_or_notify_cancel()
            try:
                f.set_result(fn(*args, **kw))
            except BaseException as e:
                f.set_exception(e)
            while not self.inc.acquire(timeout=0.05):
                if self.stop.is_set():
                    break

    def shutdown(self, wait=True, **kw):
        self.was_shutdown = True

    def meter_factory(self, total, initial=0, **kw):
        return Meter(total, self.inc.release)


def forced_record(tmp, scen, files_ok, single):
    """Run calc_file_signatures with the completion order of scen forced; project the outcome."""
    n = scen['n']
    paths = list(files_ok[:n])
    kinds = ['missing', 'directory', 'corrupt-gzip']
    for j, fi in enumerate(scen['failing']):
        paths[fi - 1] = bad_file(tmp, kinds[(fi + j) % 3], name=f'bad{fi}')
    ex = Controlled(scen['order'], n)
    r = dict(scen=scen, outcome='', sigs=[], err='', executor_left_open=True, increments=0)
    try:
        res = calc_file_signatures(KS, seqfiles(paths), progress=ex.meter_factory, executor=ex, max_workers=scen.get('max_workers'),
                                   concurrency=scen.get('concurrency', 'processes'))
        r['outcome'] = 'returned'
        # position j holds file j's signature -> j+1; otherwise whichever file's signature it is (0 = none)
        r['sigs'] = [j + 1 if (j < len(single) and which(s, [single[j]]) == 1) else which(s, single) for j, s in enumerate(res)]
        r['kspec_ok'] = res.kmerspec == KS
    except BaseException as e:
        r['outcome'] = 'raised'
        r['err'] = type(e).__name__
    finally:
        ex.stop.set()
        if ex.thread:
            ex.thread.join(timeout=10)
    r['executor_left_open'] = not ex.was_shutdown
    return r


def which(sig, single):
    for i, s in enumerate(single):
        if np.array_equal(np.asarray(sig), s) and np.asarray(sig).dtype == s.dtype:
            return i + 1
    return 0


class Logging(Executor):
    """Thin wrapper around a real pool: logs submit / done events with sequence numbers taken under one lock."""

    def __init__(self, inner, log, lock):
        self.inner, self.log, self.lock = inner, log, lock
        self.idx = {}

    def submit(self, fn, *a, **k):
        with self.lock:
            i = len(self.idx) + 1
            self.log.append(dict(e='submit', i=i))
        f = self.inner.submit(fn, *a, **k)
        self.idx[f] = i

        def cb(fut, i=i):
            with self.lock:
                self.log.append(dict(e='done', i=i, ok=fut.exception() is None))
        f.add_done_callback(cb)
        return f

    def shutdown(self, wait=True, **kw):
        self.inner.shutdown(wait=wait)


def real_pool_trace(tmp, paths, failing, kind, workers, single):
    log, lock = [], threading.Lock()
    inner = ThreadPoolExecutor(workers) if kind == 'threads' else ProcessPoolExecutor(workers)
    ex = Logging(inner, log, lock)

    def on_inc():
        with lock:
            log.append(dict(e='inc'))
    try:
        try:
            res = calc_file_signatures(KS, seqfiles(paths), progress=lambda total, initial=0, **kw: Meter(total, on_inc), executor=ex)
            with lock:
                log.append(dict(e='return', sigs=[which(s, single) for s in res]))
        except BaseException as e:
            with lock:
                log.append(dict(e='raise', cls=type(e).__name__))
    finally:
        inner.shutdown(wait=True)
    with lock:
        ev = [dict(dict(e='', i=0, ok=True, sigs=[], cls=''), **x) for x in log]
    # events logged after the verdict (late done callbacks) are irrelevant to it: cut after return / raise
    cut = next(k for k, x in enumerate(ev) if x['e'] in ('return', 'raise'))
    return dict(n=len(paths), failing=sorted(failing), workers=workers, kind=kind, ev=ev[:cut + 1])


def mode_record(paths, failing, concurrency, workers, single):
    """calc_file_signatures creating its own pool (or sequential): only the result can be observed."""
    r = dict(n=len(paths), failing=sorted(failing), outcome='', sigs=[], mode=str(concurrency), workers=workers or 0)
    try:
        res = calc_file_signatures(KS, seqfiles(paths), concurrency=concurrency, max_workers=workers)
        r['outcome'] = 'returned'
        # position j holds file j's signature -> j+1; otherwise whichever file's signature it is (0 = none)
        r['sigs'] = [j + 1 if (j < len(single) and which(s, [single[j]]) == 1) else which(s, single) for j, s in enumerate(res)]
    except BaseException as e:
        r['outcome'] = 'raised'
        r['err'] = type(e).__name__
    return r


def run(ctx):
    acts = ['SubmitAny', 'StartAny', 'FinishAny', 'CollectAny', 'Return']
    big = ctx.tier == 'thorough'
    ctx.mc('CalcFiles', 'MC_CalcFiles.cfg', require_actions=acts, workers=16,
           overrides=dict(MaxFiles=5 if big else 4, MaxWorkers=3 if big else 2, MaxFailing=2 if big else 1),
           note='all interleavings of submit/start/finish/fail/collect: order kept, failure is loud, return only after all collected')
    ctx.mc('CalcFiles', 'MC_CalcFiles.cfg', expect='OrderKept', overrides=dict(CollectMode='"append"'),
           note='negative control: collecting in completion order breaks file order')
    ctx.mc('CalcHistory', 'MC_CalcHistory.cfg', require_actions=['NewCall', 'ProcessAny'], workers=8,
           overrides=dict(MaxCalls=3 if not big else 4, MaxFiles=2 if not big else 3),
           note='several calls on one long-lived executor, files failing part-way: every returned signature holds exactly its own file')
    ctx.mc('CalcHistory', 'MC_CalcHistory.cfg', expect='OwnSignature', overrides=dict(FreshAccumulator='FALSE'),
           note='negative control: a per-worker accumulator cleared only on success leaks a failed file into the next one')
    tmp = tlc.mktmp('c13-')
    try:
        nmax = 6 if big else 4
        files = write_genomes(tmp, nmax, seed=ctx.seed)
        single = [np.asarray(calc_file_signature(KS, sf)) for sf in seqfiles(files)]
        assert len({s.tobytes() for s in single}) == nmax
        # ---- generator: every completion permutation x failing position, forced on the real code
        scens, gres = tlc.generate('Gen_CalcFiles', cfg=_gen_cfg(tmp, nmax, 2 if big else 1), timeout=1800)
        bad = 0
        for k, sc in enumerate(scens):
            if big and sc['n'] == 6 and len(sc['failing']) == 2 and k % 5:
                continue
            sc['max_workers'] = [None, 1, 2, 3][k % 4]          # ignored when an executor is supplied - must not matter
            sc['concurrency'] = ['processes', 'threads', None][k % 3]
            r = forced_record(tmp, sc, files, single)
            exp = sc['expect']
            ok = r['outcome'] == exp['outcome'] and (r['outcome'] != 'returned' or (r['sigs'] == exp['sigs'] and r.get('kspec_ok')))
            ok = ok and r['executor_left_open']
            ctx.traces += 1
            ctx.evaluations += 1
            if sc['n'] >= 3:
                ctx.nontrivial_keys.add(('forced', core.short_hash(sc)))
            if not ok:
                bad += 1
                ctx.report('forced-completion-order', sc, r, ['outcome-differs-from-specification'],
                           key=f'forced:{r["outcome"]}:{"fail" if sc["failing"] else "ok"}',
                           describe=f'order={sc["order"]} failing={sc["failing"]} expected {exp} got {r["outcome"]} {r["sigs"]} open={r["executor_left_open"]}')
        ctx.families.append(dict(name='forced-completion-order', records=len(scens), rejected=bad,
                                 generator='Gen_CalcFiles (TLC): all permutations x failing sets, expected outcome from the spec'))
        ctx.add_samples([dict(family='forced-completion-order', scenario=scens[len(scens) // 2])], limit=1)
        # ---- judge: traces of real thread / process pools validated by Trace_CalcFiles
        os.makedirs(os.path.join(tmp, 'skew'))
        skew = write_genomes(os.path.join(tmp, 'skew'), nmax, skew=True, seed=ctx.seed + 1)
        single_skew = [np.asarray(calc_file_signature(KS, sf)) for sf in seqfiles(skew)]
        assert len({s.tobytes() for s in single_skew}) == nmax
        traces = []
        reps = 2 if not big else 6
        for kind in ('threads', 'processes'):
            for workers in ([1, 2, 4, 16] if not big else [1, 2, 3, 4, 8, 16]):
                for rep in range(reps):
                    traces.append(real_pool_trace(tmp, skew, set(), kind, workers, single_skew))
                for pos in range(nmax):
                    if pos % 2 and not big:
                        continue
                    paths = list(skew)
                    paths[pos] = bad_file(tmp, ['missing', 'directory', 'corrupt-gzip'][pos % 3], name=f'tbad{pos}')
                    traces.append(real_pool_trace(tmp, paths, {pos + 1}, kind, workers, single_skew))
        n, badt = tlc.judge('Trace_CalcFiles', traces, cfg='Trace_CalcFiles.cfg', shards=min(8, len(traces)))
        for i, why in badt:
            t = traces[i]
            ctx.report('real-pool-trace', dict(kind=t['kind'], workers=t['workers'], failing=t['failing']), t, why,
                       key=f'pool-trace:{t["kind"]}:{"fail" if t["failing"] else "ok"}:{why[-1] if why else ""}', describe=f'{t["kind"]} x{t["workers"]} failing={t["failing"]} ev={t["ev"][-3:]}')
        ctx.traces += n
        ctx.evaluations += n
        orders = set()
        for t in traces:
            o = tuple(x['i'] for x in t['ev'] if x['e'] == 'done')
            orders.add(o)
            ctx.nontrivial_keys.add(('pool', core.short_hash([t['kind'], t['workers'], t['failing'], o])))
        ctx.families.append(dict(name='real-pool-trace', records=n, rejected=len(badt), judge='Trace_CalcFiles',
                                 distinct_completion_orders=len(orders), non_identity_orders=sum(1 for o in orders if list(o) != sorted(o))))
        ctx.add_samples([dict(family='real-pool-trace', trace=traces[0])], limit=1)
        # binding self-test: corrupt one field / drop one event
        good = next(t for t in traces if not t['failing'] and t['ev'][-1]['e'] == 'return')
        c1 = dict(good, ev=[dict(x, sigs=(x['sigs'][1:] + x['sigs'][:1]) if x['e'] == 'return' else x['sigs']) for x in good['ev']])
        c2 = dict(good, ev=[x for x in good['ev'] if not (x['e'] == 'done' and x['i'] == 1)])
        _, b2 = tlc.judge('Trace_CalcFiles', [c1, c2], cfg='Trace_CalcFiles.cfg', shards=1)
        ctx.selftests.append(dict(family='real-pool-trace', corrupted=2, rejected=len({i for i, _ in b2})))
        if len({i for i, _ in b2}) != 2:
            raise tlc.MachineryError('self-test: Trace_CalcFiles accepted a rotated result / a dropped completion event')
        # ---- own-pool and sequential modes: result only
        mrecs = []
        for conc in (None, 'threads', 'processes'):
            for workers in ([None, 1, 2, 16] if conc else [None]):
                mrecs.append(mode_record(skew, set(), conc, workers, single_skew))
                for pos in (0, nmax // 2, nmax - 1):
                    paths = list(skew)
                    paths[pos] = bad_file(tmp, ['missing', 'directory', 'corrupt-gzip'][pos % 3], name=f'mbad{pos}')
                    mrecs.append(mode_record(paths, {pos + 1}, conc, workers, single_skew))
        # files without a single record (zero bytes, plain or gzip): legal inputs whose signature is empty
        import gzip as _gz0
        empties = []
        for nm, blob in (('empty0.fa', b''), ('empty1.fa.gz', _gz0.compress(b'')), ('empty2.fasta.gz', _gz0.compress(b'', mtime=0))):
            pth = os.path.join(tmp, nm)
            with open(pth, 'wb') as f:
                f.write(blob)
            empties.append(pth)
        for conc in (None, 'threads', 'processes'):
            for workers in ([None, 2] if conc else [None]):
                for pos in (0, nmax // 2, nmax - 1):
                    paths = list(skew)
                    paths[pos] = empties[pos % 3]
                    single_e = list(single_skew)
                    single_e[pos] = np.asarray([], dtype=single_skew[0].dtype)          # the signature of nothing, by definition
                    rr = mode_record(paths, set(), conc, workers, single_e)
                    rr['sizes'] = f'record-less file at {pos}'
                    mrecs.append(rr)
                rr = mode_record(empties, set(), conc, workers, [np.asarray([], dtype=single_skew[0].dtype)] * 3)      # only record-less files
                rr['sigs'] = list(range(1, len(rr['sigs']) + 1)) if rr['outcome'] == 'returned' and all(x == 1 for x in rr['sigs']) else rr['sigs']
                rr['sizes'] = 'only record-less files'
                mrecs.append(rr)
        # no files at all: an empty result in every mode and for every worker count
        for conc in (None, 'threads', 'processes'):
            for workers in ([None, 1, 2, 4] if conc else [None]):
                rr = mode_record([], set(), conc, workers, [])
                rr['sizes'] = 'no files'
                mrecs.append(rr)
        # the same file listed more than once (the same path given twice, equal SequenceFile objects): one signature per LIST ENTRY
        for conc in (None, 'threads', 'processes'):
            for workers in ([None, 2] if conc else [None]):
                for dup in ([0, 1, 0, 2], [2, 2, 2], [0, 1, 2, 3, 1, 0]):
                    paths = [skew[j] for j in dup]
                    rr = mode_record(paths, set(), conc, workers, [single_skew[j] for j in dup])
                    rr['sizes'] = f'duplicates {dup}'
                    mrecs.append(rr)
        # file-size permutations with fewer workers than files, and more files than CPUs with the default worker count
        perm_dir = os.path.join(tmp, 'perm')
        os.makedirs(perm_dir)
        import itertools as _it
        for pi, sizes in enumerate(_it.permutations([500, 4000, 20000])):
            d = os.path.join(perm_dir, str(pi)); os.makedirs(d)
            pf = write_genomes(d, 3, seed=ctx.seed + 10 + pi, sizes=list(sizes))
            sg = [np.asarray(calc_file_signature(KS, sf)) for sf in seqfiles(pf)]
            for conc in ('threads', 'processes'):
                for workers in (1, 2):
                    rr = mode_record(pf, set(), conc, workers, sg)
                    rr['sizes'] = list(sizes)
                    mrecs.append(rr)
        d = os.path.join(perm_dir, 'many'); os.makedirs(d)
        nmany = (os.cpu_count() or 16) + 4
        pf = write_genomes(d, nmany, seed=ctx.seed + 99)
        sg = [np.asarray(calc_file_signature(KS, sf)) for sf in seqfiles(pf)]
        assert len({x.tobytes() for x in sg}) == nmany
        for conc in ('threads', 'processes'):
            for workers in (None, 1, 2):            # many more files than workers as well
                rr = mode_record(pf, set(), conc, workers, sg)
                rr['sizes'] = 'many'
                mrecs.append(rr)
        # histories: a call that fails part-way through a file, then further calls on the SAME long-lived executor / thread.
        # every later successful call must still return each file's own signature
        import gzip as _gz
        trunc = os.path.join(tmp, 'truncated-multi.fa.gz')
        rngt = __import__('random').Random(ctx.seed + 5)
        blob = _gz.compress(''.join(f'>c{i}\nAT{"".join(rngt.choice("ACGT") for _ in range(400))}\n' for i in range(60)).encode())
        with open(trunc, 'wb') as f:
            f.write(blob[:len(blob) * 2 // 3])            # decompresses for a while, then EOFError
        hist_execs = [('sequential', None), ('threads-1', ThreadPoolExecutor(1)), ('threads-2', ThreadPoolExecutor(2)), ('processes-1', ProcessPoolExecutor(1))]
        try:
            for label, ex in hist_execs:
                for fail_pos in (len(skew), 0, 2):
                    bad_list = list(skew[:fail_pos]) + [trunc] + list(skew[fail_pos:])
                    steps = [('fail', bad_list), ('ok', list(skew)), ('ok', list(skew[::-1]))]
                    for kind, paths in steps:
                        want = single_skew if paths == list(skew) else single_skew[::-1]
                        rr = dict(n=len(paths), failing=[fail_pos + 1] if kind == 'fail' else [], outcome='', sigs=[], mode=f'history:{label}', workers=0, step=kind)
                        try:
                            if ex is None:
                                res = calc_file_signatures(KS, seqfiles(paths), concurrency=None)
                            else:
                                res = calc_file_signatures(KS, seqfiles(paths), executor=ex)
                            rr['outcome'] = 'returned'
                            rr['sigs'] = [which(s_, want) for s_ in res]
                        except BaseException as e:
                            rr['outcome'] = 'raised'
                            rr['err'] = type(e).__name__
                        mrecs.append(rr)
        finally:
            for _, ex in hist_execs:
                if ex is not None:
                    ex.shutdown(wait=True)
        # relative paths, and the working directory changes between two calls of one process: each call reads the files of ITS directory
        dirs = []
        for di, off in enumerate((0, 1)):
            dd = os.path.join(tmp, f'cwd{di}')
            os.makedirs(dd)
            for j in range(3):
                shutil.copy(skew[(j + off) % len(skew)], os.path.join(dd, f'g{j}.fa'))
            dirs.append((dd, [single_skew[(j + off) % len(skew)] for j in range(3)]))
        here = os.getcwd()
        try:
            for conc in ('processes', 'threads', None):
                for rep in range(2):
                    for dd, want in dirs:
                        os.chdir(dd)
                        rr = dict(n=3, failing=[], outcome='', sigs=[], mode=f'chdir:{conc}', workers=2 if conc else 0, step=f'{os.path.basename(dd)}#{rep}')
                        try:
                            res = calc_file_signatures(KS, seqfiles(['g0.fa', 'g1.fa', 'g2.fa']), concurrency=conc, max_workers=2 if conc else None)
                            rr['outcome'] = 'returned'
                            rr['sigs'] = [j + 1 if which(s_, [want[j]]) == 1 else 0 for j, s_ in enumerate(res)]
                        except BaseException as e:
                            rr['outcome'] = 'raised'
                            rr['err'] = type(e).__name__
                        mrecs.append(rr)
        finally:
            os.chdir(here)
        for r in mrecs:
            exp_out = 'raised' if r['failing'] else 'returned'
            ok = r['outcome'] == exp_out and (exp_out == 'raised' or r['sigs'] == list(range(1, r['n'] + 1)))
            ctx.traces += 1
            ctx.evaluations += 1
            ctx.nontrivial_keys.add(('mode', core.short_hash(r)))
            if not ok:
                ctx.report('mode-result', dict(mode=r['mode'], workers=r['workers'], failing=r['failing']), r,
                           ['result-not-in-file-order-or-failure-swallowed'], key=f'mode:{r["mode"]}:{"fail" if r["failing"] else "ok"}',
                           describe=str(r))
        ctx.families.append(dict(name='mode-result', records=len(mrecs)))
        ctx.rule_parts.append(f'[forced-completion-order] every completion permutation of 1..{nmax} files x every failing set of size <= '
                              f'{2 if big else 1} generated by TLC (Gen_CalcFiles) and forced on calc_file_signatures through a controlled '
                              f'executor; [real-pool-trace] ThreadPool/ProcessPool x worker counts x size skew x unreadable file at each '
                              f'position, events validated by Trace_CalcFiles; [mode-result] sequential / own thread pool / own process pool; histories on one long-lived executor / thread: a call that fails part-way through a truncated multi-record gzip, then successful calls; '
                              f'non-trivial = >= 3 files')
        ctx.exhaustive_all = False
    finally:
        shutil.rmtree(tmp, ignore_errors=True)
    ctx.assumptions += ['each returned signature is identified with the file whose single-file signature it equals (files have pairwise distinct signatures)',
                        'expected outcomes of forced orders come from the TLC generator; the equality test of small integer lists is done in the harness',
                        'completion order of real pools is whatever the OS produces (recorded, not chosen); chosen orders use the controlled executor']


def _gen_cfg(tmp, nmax, maxfail):
    p = os.path.join(tmp, 'Gen_CalcFiles_run.cfg')
    with open(p, 'w') as f:
        f.write(f'CONSTANTS\n  MaxN = {nmax}\n  MaxFail = {maxfail}\n')
    return p


def replay(ctx, scen):
    tmp = tlc.mktmp('c13r-')
    try:
        files = write_genomes(tmp, 6, seed=ctx.seed)
        single = [np.asarray(calc_file_signature(KS, sf)) for sf in seqfiles(files)]
        if scen['family'] == 'forced-completion-order':
            sc = scen['inputs']
            r = forced_record(tmp, sc, files, single)
            exp = sc['expect']
            return r['outcome'] == exp['outcome'] and (r['outcome'] != 'returned' or r['sigs'] == exp['sigs']) and r['executor_left_open']
        print('replay of pool traces re-runs the check family; use ./check C13 --tier quick')
        return True
    finally:
        shutil.rmtree(tmp, ignore_errors=True)
