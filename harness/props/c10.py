"""C10 - strict classification reports an order-independent consensus of all matches."""
import itertools
import re

from gambit.classify import classify, consensus_taxon
from .. import core
from ..taxo import World, forests, rank_of


def cons_record(parent, inp):
    w = World(parent, [-1] * len(parent))
    r = dict(op='cons', parent=parent, input=inp, ok=False, err='', cons=0, others=[])
    try:
        c, others = consensus_taxon([w.taxa[i - 1] for i in inp])
        r['cons'] = w.t(c)
        r['others'] = sorted(w.t(o) for o in others)
        r['ok'] = True
    except Exception as e:
        r['err'] = type(e).__name__
    return r


def project_strict(w, res, perm):
    """perm[k] = original (1-based) genome standing at position k of the reference list"""
    x = dict(ok=True, err='', pred=w.t(res.predicted_taxon), success=bool(res.success), error=res.error is not None,
             warn_inconsistent=False, warned=[], primary_g=0, primary_d=-1, primary_mt=0, closest_g=0, nwarn=len(res.warnings))
    for msg in res.warnings:
        if 'inconsistent taxa' in msg:
            x['warn_inconsistent'] = True
            body = msg.split('inconsistent taxa: ', 1)[1].rsplit('. Reporting', 1)[0]
            names = [s.strip() for s in body.split(', ')]
            by_repr = {t.short_repr(): i + 1 for i, t in enumerate(w.taxa)}
            x['warned'] = sorted(by_repr.get(nm, -1) for nm in names)
    if res.primary_match is not None:
        x['primary_g'] = w.g(res.primary_match.genome)
        x['primary_d'] = rank_of(res.primary_match.distance)
        x['primary_mt'] = w.t(res.primary_match.matched_taxon)
    x['closest_g'] = w.g(res.closest_match.genome)
    return x


def strict_record(parent, thr, gt, d, perms, parent_before=None, link='parent'):
    w = World(parent_before if parent_before is not None else parent, thr, gt=gt, link=link)
    dist = w.dists(d)
    if parent_before is not None:
        # the taxonomy is edited between two classifications on the same objects: classify and walk every lineage on the old forest,
        # then re-parent the same Taxon objects; everything below is judged against the NEW forest
        classify(w.genomes, dist, strict=False)
        classify(w.genomes, dist, strict=True)
        for t in w.taxa:
            list(t.ancestors(incself=True)); t.lineage()
        for i, pnew in enumerate(parent):
            want = w.taxa[pnew - 1] if pnew else None
            if w.taxa[i].parent is not want:
                w.taxa[i].parent = want
    r = dict(op='strict', parent=parent, thr=thr, gt=gt, d=d, results=[])
    for perm in perms:
        genomes = [w.genomes[g - 1] for g in perm]
        dd = dist[[g - 1 for g in perm]]
        try:
            res = classify(genomes, dd, strict=True)
            x = project_strict(w, res, perm)
        except Exception as e:
            x = dict(ok=False, err=type(e).__name__, pred=0, success=False, error=False, warn_inconsistent=False, warned=[],
                     primary_g=0, primary_d=-1, primary_mt=0, closest_g=0, nwarn=0)
        x['perm'] = list(perm)
        r['results'].append(x)
    return r


class Fam(core.Family):
    judge = 'Judge_C10'
    procs = 16

    def execute(self, inp):
        if inp['op'] == 'cons':
            return cons_record(inp['parent'], inp['input'])
        perms = inp.get('perms') or list(itertools.permutations(range(1, len(inp['gt']) + 1)))
        return strict_record(inp['parent'], inp['thr'], inp['gt'], inp['d'], perms, inp.get('parent_before'), inp.get('link', 'parent'))

    def corrupt(self, rec):
        if rec['op'] == 'cons':
            if len(rec['parent']) == 1:
                rec['cons'] = 0
            else:
                rec['cons'] = rec['cons'] % len(rec['parent']) + 1
            return rec
        x = rec['results'][-1]
        x['pred'] = x['pred'] % len(rec['parent']) + 1 if len(rec['parent']) > 1 else (0 if x['pred'] else 1)
        return rec

    def describe(self, inp, rec):
        return core.canon({k: v for k, v in inp.items() if k != 'perms'})[:300]


class ConsensusAll(Fam):
    name = 'consensus-all-orders'
    exhaustive = True

    def inputs(self, ctx):
        nmax, kmax = (4, 4) if ctx.tier == 'quick' else (5, 4)
        self.rule = (f'consensus_taxon on every duplicate-free ordered selection of <= {kmax} taxa from every forest with <= {nmax} '
                     f'taxa (real Taxon objects); non-trivial = >= 3 taxa that are not on a single lineage')
        for n in range(1, nmax + 1):
            for p in forests(n):
                for k in range(1, min(kmax, n) + 1):
                    for sel in itertools.permutations(range(1, n + 1), k):
                        yield dict(op='cons', parent=p, input=list(sel))

    def nontrivial(self, inp, rec):
        if len(inp['input']) < 3:
            return None
        p = inp['parent']
        def anc(t):
            s = set()
            while t:
                s.add(t); t = p[t - 1]
            return s
        deepest = max(inp['input'], key=lambda t: len(anc(t)))
        return core.short_hash(inp) if not set(inp['input']) <= anc(deepest) else None


def lineage_sets(p):
    return None


class StrictExhaustive(Fam):
    name = 'strict-classify-small'
    exhaustive = True

    def inputs(self, ctx):
        self.rule = ('classify(strict=True) on every forest with <= 3 taxa x thresholds {none, rank 1, rank 2} per taxon x 2 (quick) / '
                     '3 (thorough) genomes on any taxa x distance ranks {0..3} each, under EVERY permutation of the reference list; '
                     'non-trivial = >= 2 distinct matched taxa')
        ng = 2 if ctx.tier == 'quick' else 3
        for n in range(1, 4):
            for p in forests(n):
                for thr in itertools.product([-1, 1, 2], repeat=n):
                    for gt in itertools.product(range(1, n + 1), repeat=ng):
                        for d in itertools.product(range(0, 4), repeat=ng):
                            yield dict(op='strict', parent=p, thr=list(thr), gt=list(gt), d=list(d))

    def nontrivial(self, inp, rec):
        preds = {x['primary_mt'] for x in rec['results']}
        warned = any(x['warn_inconsistent'] or x['error'] for x in rec['results'])
        return core.short_hash(inp) if warned or len({g for g in inp['gt']}) > 1 else None


class DeepFork(Fam):
    """family > genus (no threshold) > three species: matches in sibling branches fork at the threshold-less genus, while another
    genome below the genus may only match the family above it"""
    name = 'strict-deep-fork'
    exhaustive = True
    rule = ('forest F(thr hi) > G(no thr) > S(lo), T(lo), U(vlo) with one genome in each species: every threshold choice hi in {3,4}, lo in {1,2}, '
            'vlo in {0,1} x every distance-rank triple in 0..4, under all 6 reference orders')

    def inputs(self, ctx):
        for hi in (3, 4):
            for lo in (1, 2):
                for vlo in (0, 1):
                    for d in itertools.product(range(0, 5), repeat=3):
                        yield dict(op='strict', parent=[0, 1, 2, 2, 2], thr=[hi, -1, lo, lo, vlo], gt=[5, 3, 4], d=list(d))

    nontrivial = StrictExhaustive.nontrivial


class StrictRandom(Fam):
    name = 'strict-classify-random'
    exhaustive = False

    def inputs(self, ctx):
        n_sc = 6000 if ctx.tier == 'quick' else 80000
        self.rule = (f'{n_sc} seeded random scenarios: forests with 4-7 taxa (depth up to 7, several roots), thresholds none/ranks 0..4 '
                     f'(non-monotone), 3-5 genomes (4: all 24 orders; 5: 30 sampled orders), distances with ties and exact '
                     f'threshold hits; includes the family {{species, its subspecies, sibling species}}')
        rng = ctx.rng
        for i in range(n_sc):
            n = rng.randint(4, 7)
            p = [0] + [rng.randint(0, t - 1) if rng.random() < 0.85 else 0 for t in range(2, n + 1)]
            if i % 7 == 0:
                p = [0] + [t - 1 for t in range(2, n + 1)]             # a single deep lineage
            if i % 11 == 0:
                p = [0, 1, 2, 1] + [rng.randint(0, t - 1) for t in range(5, n + 1)]   # genus, species, subspecies, sibling
            thr = [rng.choice([-1, 0, 1, 2, 3, 4]) if rng.random() < 0.8 else -1 for _ in range(n)]
            ng = rng.choice([3, 4, 4, 5])
            gt = [rng.randint(1, n) for _ in range(ng)]
            d = [rng.randint(0, 5) for _ in range(ng)]
            perms = None
            if ng == 5:
                allp = list(itertools.permutations(range(1, 6)))
                perms = [list(x) for x in rng.sample(allp, 30)]
            yield dict(op='strict', parent=p, thr=thr, gt=gt, d=d, perms=perms, link=('children' if i % 2 else 'parent'))

    nontrivial = StrictExhaustive.nontrivial


class StrictReparented(Fam):
    name = 'strict-reparented-between-calls'
    exhaustive = False

    def inputs(self, ctx):
        step = 9 if ctx.tier == 'quick' else 1
        self.rule = (f'ordered pairs of distinct forests on 4 taxa (every {step}th combination): classify (both modes) and walk all lineages on the first, '
                     f're-parent the SAME Taxon objects into the second, then classify(strict=True) under all 6 reference orders of 3 genomes; judged against the second forest')
        fs = forests(4)
        c = 0
        for p1 in fs:
            for p2 in fs:
                if p1 == p2:
                    continue
                for thr in ([3, 2, 1, 1], [2, -1, 1, 0], [-1, 2, 2, 1]):
                    for gt in ([2, 3, 4], [4, 4, 1], [3, 4, 2]):
                        for d in ([0, 1, 2], [1, 1, 1], [2, 0, 1], [0, 0, 3]):
                            c += 1
                            if c % step:
                                continue
                            yield dict(op='strict', parent=p2, parent_before=p1, thr=thr, gt=gt, d=d)

    nontrivial = StrictExhaustive.nontrivial


FAMILIES = [ConsensusAll, StrictExhaustive, DeepFork, StrictRandom, StrictReparented]


def run(ctx):
    acts = ['Step', 'Finish']
    N = 4 if ctx.tier == 'quick' else 5
    ctx.mc('ConsensusAlgo', 'MC_ConsensusAlgo.cfg', require_actions=acts, overrides=dict(N=N, MaxInput=4), workers=16,
           note=f'trunk algorithm (as repaired) == ConsDef for all forests <= {N} taxa, all ordered selections <= 4')
    ctx.mc('ConsensusAlgo', 'MC_ConsensusAlgo.cfg', expect='Correct', overrides=dict(N=4, MaxInput=3, Forked='FALSE'),
           note='negative control: the algorithm as found at the pinned commit is order dependent (three siblings)')
    for F in FAMILIES:
        core.run_family(ctx, F())
    core.run_concurrent(ctx, StrictRandom(), list(StrictRandom().inputs(ctx))[:60] + list(DeepFork().inputs(ctx))[:20], secs=3 if ctx.tier == 'quick' else 15, name='concurrent-callers')
    ctx.assumptions += ['distances/thresholds are abstracted to ranks (rank r = r/16 exactly in float32 and float64)',
                        'the warning is recognised by its text ("inconsistent taxa") and the named taxa by Taxon.short_repr()',
                        'when no common ancestor exists the statement does not constrain the warning; it is not judged then']


def replay(ctx, scen):
    if scen['family'] not in {F.name for F in FAMILIES}:
        return core.RERUN            # reported outside a judged family: replay by re-running the check
    fam = {F.name: F for F in FAMILIES}[scen['family']]()
    recs, bad = core.run_family(ctx, fam, inputs=[scen['inputs']])
    return not bad
