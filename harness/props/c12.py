"""C12 - signature files round-trip exactly and foreign files are refused."""
import gzip
import itertools
import json
import os
import shutil
import sqlite3

import h5py
import numpy as np

from gambit.kmers import KmerSpec
from gambit.sigs import SignatureArray, SignatureList, AnnotatedSignatures, SignaturesMeta, dump_signatures, load_signatures
from gambit.sigs.base import SignaturesFileError
from .. import core, tlc
from ..enc import blist
from . import c20


def cps(s):
    """Option(str) -> [] or [[code points]]; texts over 2000 characters are shipped as length + SHA-1 (the clause compares for equality)"""
    if s is not None and len(s) > 2000:
        import hashlib
        s = f'#long:{len(s)}:{hashlib.sha1(s.encode("utf-8", "surrogatepass")).hexdigest()}'
    return [] if s is None else [[ord(c) for c in s]]


def item_repr(sig):
    """small signatures verbatim (decimal strings); big ones as [marker, length, sha1] - equality of digests stands for equality of content"""
    arr = np.asarray(sig)
    if len(arr) <= 64:
        return [str(int(v)) for v in arr]
    import hashlib
    return ['#big', str(len(arr)), hashlib.sha1(np.ascontiguousarray(arr.astype('u8')).tobytes()).hexdigest()]


def content(coll, ids, meta):
    ks = coll.kmerspec
    ids = list(ids)
    kind = 'int' if all(isinstance(i, (int, np.integer)) for i in ids) else 'str'
    ids = [i.decode() if isinstance(i, bytes) else i for i in ids]
    return dict(k=int(ks.k), prefix=blist(ks.prefix), dtype=c20.dts(coll.dtype),
                ids=[str(int(i)) for i in ids] if kind == 'int' else [[ord(c) for c in str(i)] for i in ids], ids_kind=kind if ids else 'none',
                meta=dict(id=cps(meta.id), name=cps(meta.name), version=cps(meta.version), id_attr=cps(meta.id_attr),
                          description=cps(meta.description),
                          extra=cps(None if meta.extra is None else json.dumps(meta.extra, sort_keys=True))),
                items=[item_repr(s) for s in coll])


METAS = {
    'default': None,
    'all-none': dict(extra=None),
    'empty-strings': dict(id='', name='', version='', id_attr='', description='', extra={}),
    'unicode': dict(id='sét/1', name='名前 ✓', version='1.0.post1', id_attr='refseq_acc', description='line1\nline2, "quoted" ü', extra=dict(author='Zoë', revision=dict(num=3, date='2024-01-01'), nested=[1, [2, {'x': None}], 'é'])),
    'ascii': dict(id='set1', name='n', version='0.1', id_attr='key', description='d', extra=dict(a=1)),
}
# metadata of the sizes a real reference set carries (per-genome provenance, change logs): the 64 KiB object-header limit of HDF5 lies inside
BIG_METAS = {
    'extra-70k': dict(id='big/1', name='big', extra=dict(genomes=[dict(acc=f'GCF_{i:09d}.1', src='refseq', note='x' * 20) for i in range(1000)])),
    'extra-400k-unicode': dict(id='big/2', extra=dict(log=['é✓ ' * 40] * 1200, n=1)),
    'description-200k': dict(id='big/3', description='line ü\n' * 30000, extra={}),
    'name-and-version-70k': dict(id='i' * 70000, name='n' * 70000, version='v' * 70000, id_attr='a' * 70000),
    'extra-65k-edge': dict(extra=dict(t='y' * 65500)),
}
METAS.update(BIG_METAS)
IDS = {
    'default': lambda n: None,
    'ints': lambda n: [7 * i + 3 for i in range(n)],
    'bigints': lambda n: [2 ** 62 + i for i in range(n)],
    'ascii': lambda n: [f'GCF_{i:06d}.1' for i in range(n)],
    'unicode': lambda n: [f'gén-{i}-ö✓' for i in range(n)],
    'with-empty': lambda n: [''] + [f'x{i}' for i in range(1, n)],
    'numpy-U': lambda n: np.array([f'u{i}é' for i in range(n)]),
    'white-space': lambda n: [['x', 'x ', ' x', 'x\t', 'x\n', 'X'][i % 6] + ('' if i < 6 else str(i)) for i in range(n)],     # exact strings, nothing trimmed or folded
    'numpy-int32': lambda n: np.arange(100, 100 + n, dtype='i4'),
    'tuple': lambda n: tuple(f't{i}' for i in range(n)),
    'numpy-uint64-top': lambda n: np.array(([12345, 2 ** 63, 2 ** 64 - 1, 2 ** 63 - 1, 2 ** 64 - 2, 0] * n)[:n], dtype='u8'),     # e.g. hash-derived ids
    'numpy-int64-neg': lambda n: np.array(([-1, -2 ** 63, 2 ** 63 - 1, 0, -7, 5] * n)[:n], dtype='i8'),
    'numpy-uint8': lambda n: np.arange(250, 250 + n, dtype='u1') if n <= 6 else np.arange(n, dtype='u1'),
}


def make_coll(spec, rng):
    k, plen, n, dtype = spec['k'], spec['plen'], spec['n'], spec.get('dtype')
    ks = KmerSpec(k, ('ATGAC' * 3)[:plen])
    dt = np.dtype(dtype) if dtype else ks.index_dtype
    top = 4 ** k - 1
    sigs = []
    for i in range(n):
        m = 0 if spec.get('all_empty') or (spec.get('some_empty') and i % 2 == 0) else rng.randint(1, 6)
        if spec.get('big') and i in spec['big'] and top > 10 ** 6:
            m = spec['big'][i] if isinstance(spec['big'], dict) else 20000
            nprng = np.random.default_rng(spec['seed'] + i)
            sigs.append(np.unique(nprng.integers(0, min(top, 2 ** 62), size=m, dtype=np.uint64))[:m].astype(dt))
            continue
        vals = sorted({rng.choice([0, top, top - rng.randint(0, min(top, 50)), rng.randint(0, top)]) for _ in range(m)})
        sigs.append(np.array(vals, dtype=dt))
    cont = spec['cont']
    base = SignatureArray(sigs, ks, dtype=dt) if 'array' in cont else SignatureList(sigs, ks, dtype=dt)
    if cont in ('window', 'annotated-window'):
        # a zero-copy window into a larger concatenated array (shared values, bounds[0] != 0)
        pad = [np.array([1, 2], dtype=dt), np.array([3], dtype=dt)]
        full = SignatureArray(pad + sigs + pad[:1], ks, dtype=dt)
        base = SignatureArray.from_arrays(full.values, full.bounds[2:len(sigs) + 3], ks)
    ids = IDS[spec['ids']](n)
    mk = METAS[spec['meta']]
    meta = SignaturesMeta(**mk) if mk is not None else SignaturesMeta()
    if cont.startswith('annotated'):
        coll = AnnotatedSignatures(base, ids, meta if mk is not None or spec['meta'] == 'default' else None)
        return coll, base, (ids if ids is not None else list(range(n))), coll.meta
    return base, base, list(range(n)), SignaturesMeta()


BLANKC = dict(k=0, prefix=[], dtype='', ids=[], ids_kind='none', meta=dict(id=[], name=[], version=[], id_attr=[], description=[], extra=[]), items=[])


class RoundTrip(core.Family):
    name = 'round-trip'
    judge = 'Judge_C12'
    exhaustive = False

    def inputs(self, ctx):
        reps = 1 if ctx.tier == 'quick' else 6
        self.rule = ('collections with k in {1,4,5,8,9,16,17,32} (all four index widths; values 0, 4^k-1 and random), prefix length 1..13, '
                     '1..6 signatures incl. all-empty and alternating-empty, containers array / list / zero-copy window (bounds[0] != 0) / annotated wrapper of each, ids '
                     '{default, ints, 2^62+i, ASCII, Unicode, with empty string, NumPy U / int32 / uint8 arrays, uint64 arrays with values >= 2^63, int64 arrays with negative values, tuple}, metadata {default, all None, empty strings, Unicode with '
                     'nested extra, ASCII, and texts / nested extra of 65-400 kB}, compression {none, gzip 0/1/9, lzf}, widened dtype; dump_signatures -> load_signatures; plus '
                     'indexing of the loaded file with ints, slices, index lists and masks; non-trivial = >= 2 signatures, not all empty')
        ks = [1, 4, 5, 8, 9, 16, 17, 32]
        conts = ['array', 'list', 'annotated-array', 'annotated-list', 'window', 'annotated-window']
        comps = [None, 'gzip:0', 'gzip:1', 'gzip:9', 'lzf']
        c = 0
        for rep in range(reps):
            for k in ks:
                for cont in conts:
                    for idk in IDS:
                        if not cont.startswith('annotated') and idk != 'default':
                            continue
                        for mk in METAS:
                            if not cont.startswith('annotated') and mk != 'default':
                                continue
                            if mk in BIG_METAS and not (idk == 'ascii' and k in (4, 17) and rep == 0):
                                continue
                            c += 1
                            if k >= 16 and c % 9 == 0:
                                # signatures with >= 2^14 values at non-first positions (write buffering thresholds), list-like containers too
                                yield dict(k=k, plen=3, n=4, cont=cont, ids=idk, meta=mk, comp=comps[c % len(comps)], all_empty=False, some_empty=False,
                                           dtype=None, seed=ctx.seed + c, big={1: 16384, 3: 70000} if c % 2 else {2: 16390})
                            yield dict(k=k, plen=1 + (c % 13), n=1 + (c % 6), cont=cont, ids=idk, meta=mk, comp=comps[c % len(comps)],
                                       all_empty=(c % 11 == 0), some_empty=(c % 3 == 0),
                                       dtype=('u8' if c % 7 == 0 else 'i8' if c % 13 == 0 and k <= 16 else None), seed=ctx.seed + c)

    def execute(self, inp):
        import random
        rng = random.Random(inp['seed'])
        tmp = c20.tmpdir()
        # every second collection is written to ONE path per worker process, replacing the file written there before
        path = os.path.join(tmp, f'rt{core.short_hash(inp)}.gs' if inp['seed'] % 2 else f'reused_{os.getpid()}.gs')
        if os.path.exists(path):
            os.remove(path)
        r = dict(op='roundtrip', spec=inp, ok=False, err='', orig=BLANKC, loaded=BLANKC, index=[])
        try:
            coll, base, ids, meta = make_coll(inp, rng)
            r['orig'] = content(base, ids, meta)
            kw = {}
            if inp['comp']:
                parts = inp['comp'].split(':')
                kw['compression'] = parts[0]
                if len(parts) > 1:
                    kw['compression_opts'] = int(parts[1])
            dump_signatures(path, coll, **kw)
            with load_signatures(path) as loaded:
                r['loaded'] = content(loaded, loaded.ids, loaded.meta)
                n = len(base)
                menu = [dict(t='int', v=0), dict(t='int', v=-1), dict(t='int', v=n), dict(t='slice', a=[], b=[], s=[]),
                        dict(t='slice', a=[1], b=[], s=[]), dict(t='slice', a=[], b=[], s=[-1]), dict(t='slice', a=[n], b=[n], s=[]),
                        dict(t='slice', a=[0], b=[n], s=[2]), dict(t='ints', v=[n - 1, 0, 0]), dict(t='ints', v=list(range(n))[::-1]),
                        dict(t='ints', v=[0, n - 1][:n] if n > 1 else [0]), dict(t='ints', v=[-1, -n]), dict(t='ints', v=[]),
                        dict(t='mask', v=[i % 2 == 0 for i in range(n)]), dict(t='mask', v=[True] * n), dict(t='ints', v=[n])]
                if n >= 4:
                    menu += [dict(t='ints', v=[0, 2, 1, 3]), dict(t='ints', v=[1, 1, 3]), dict(t='ints', v=[-n, -n + 2, -n + 1, -n + 3])]
                items = r['orig']['items']
                for ix in (menu if not inp.get('big') else []):
                    obj, watch = c20.to_index(dict(ix, **{'as': 'list'}) if ix['t'] == 'ints' else ix)
                    try:
                        res = proj_str(loaded[obj])
                    except Exception as e:
                        res = dict(kind='error', items=[], k=0, prefix=[], dtype='', err=type(e).__name__, bounds=[], nvalues=0)
                    r['index'].append(dict(op='index', cont='hdf5', coll=dict(items=items, k=r['orig']['k'], prefix=r['orig']['prefix'],
                                                                              dtype=r['orig']['dtype']),
                                           ix=ix, ix_after=(ix['v'] if ix['t'] in ('ints', 'mask') else []), res=res))
            r['ok'] = True
        except Exception as e:
            r['err'] = f'{type(e).__name__}: {e}'[:200]
        finally:
            if os.path.exists(path):
                os.remove(path)
        return r

    def nontrivial(self, inp, rec):
        return core.short_hash(inp) if inp['n'] >= 2 and not inp.get('all_empty') else None

    def corrupt(self, rec):
        if rec['loaded']['items'] and rec['loaded']['items'][-1]:
            rec['loaded']['items'][-1] = rec['loaded']['items'][-1][:-1]
        else:
            rec['loaded']['k'] += 1
        return rec

    def describe(self, inp, rec):
        return core.canon(inp)[:300] + ' ' + rec.get('err', '')


def proj_str(res):
    p = c20.proj(res)
    p['items'] = [[str(v) for v in it] for it in p['items']]
    return p


class IndexLoaded(core.Family):
    """the per-round-trip index records, judged with the shared indexing clauses"""
    name = 'index-loaded-file'
    judge = 'Judge_C12'
    exhaustive = False
    rule = ''

    def execute(self, inp):
        return inp

    def nontrivial(self, inp, rec):
        return core.short_hash(inp) if len(inp['coll']['items']) >= 2 else None

    def corrupt(self, rec):
        if rec['res']['kind'] == 'coll' and len(rec['res']['items']) >= 1:
            rec['res']['items'] = rec['res']['items'][:-1]
            rec['res']['bounds'] = []
            return rec
        return None


def foreign_files(tmp):
    """(class, path) pairs"""
    out = []

    def w(cls, name, data):
        p = os.path.join(tmp, name)
        with open(p, 'wb') as f:
            f.write(data)
        out.append((cls, p))
    w('empty', 'empty.gs', b'')
    for n in range(1, 8):
        w('short', f'short{n}.gs', b'\x89HDF\r\n\x1a\n'[:n])
    w('text', 'text.gs', b'hello world, this is not a signature file\n' * 20)
    w('fasta', 'seq.gs', b'>contig1\nATGACGTTAGC\n>contig2\nGGGTTTAAACCC\n')
    w('gzip', 'seq.gs.gz', gzip.compress(b'>c\nATGAC\n'))
    w('json', 'x.json', json.dumps(dict(a=1)).encode())
    w('binary', 'bin.gs', bytes(range(256)) * 8)
    p = os.path.join(tmp, 'db.gs')
    con = sqlite3.connect(p); con.execute('create table t(x)'); con.commit(); con.close()
    out.append(('sqlite', p))
    w('hdf5-magic-only', 'magic.gs', b'\x89HDF\r\n\x1a\n')
    w('hdf5-magic-then-garbage', 'garbage.gs', b'\x89HDF\r\n\x1a\n' + bytes((i * 37) % 251 for i in range(4096)))
    w('hdf5-magic-then-garbage', 'zeros.gs', b'\x89HDF\r\n\x1a\n' + b'\x00' * 4096)
    p = os.path.join(tmp, 'plain.h5')
    with h5py.File(p, 'w') as f:
        f.create_dataset('values', data=np.arange(5)); f.create_dataset('bounds', data=np.arange(3)); f.create_dataset('ids', data=np.arange(2))
    out.append(('hdf5-no-marker', p))
    p = os.path.join(tmp, 'attrs.h5')
    with h5py.File(p, 'w') as f:
        f.attrs['kmerspec_k'] = 11; f.attrs['kmerspec_prefix'] = 'ATGAC'; f.attrs['version'] = 1
        f.create_dataset('values', data=np.arange(5))
    out.append(('hdf5-other-attrs', p))
    p = os.path.join(tmp, 'sub.h5')
    with h5py.File(p, 'w') as f:
        g = f.create_group('sigs')
        ks = KmerSpec(8, 'ATG')
        from gambit.sigs.hdf5 import HDF5Signatures
        HDF5Signatures.create(g, SignatureArray([np.array([1, 2], dtype='u2')], ks))
    out.append(('hdf5-marker-on-subgroup', p))
    # damaged / unknown-version signature files
    good = os.path.join(tmp, 'good.gs')
    dump_signatures(good, SignatureArray([np.arange(50, dtype='u2'), np.arange(3, dtype='u2')], KmerSpec(8, 'ATG')))
    data = open(good, 'rb').read()
    for frac in (0.3, 0.6, 0.9):
        w('truncated-gs', f'trunc{int(frac * 10)}.gs', data[:int(len(data) * frac)])
    p = os.path.join(tmp, 'nodata.gs')
    with h5py.File(p, 'w') as f:
        f.attrs['gambit_signatures_version'] = 1; f.attrs['kmerspec_k'] = 8; f.attrs['kmerspec_prefix'] = 'ATG'
    out.append(('marker-but-no-datasets', p))
    p = os.path.join(tmp, 'v2.gs')
    shutil.copy(good, p)
    with h5py.File(p, 'r+') as f:
        f.attrs['gambit_signatures_version'] = 2
    out.append(('marker-other-version', p))
    return out


def foreign_record(cls, path):
    r = dict(op='foreign', file=os.path.basename(path), outcome='', detail='')
    r['class'] = cls
    try:
        s = load_signatures(path)
        r['outcome'] = 'loaded'
        r['detail'] = f'len={len(s)}'
        s.close()
    except SignaturesFileError as e:
        r['outcome'] = 'SignaturesFileError'
    except BaseException as e:
        r['outcome'] = 'other:' + type(e).__name__
        r['detail'] = str(e)[:150]
    return r


def run(ctx):
    ctx.mc('MC_SigStore', 'MC_SigStore.cfg', require_actions=['Call', 'RawWriteback'], overrides=dict(MaxSigs=3),
           note='writer protocol of both write paths: a completed write is durable, loadable and complete (invariant Durable)')
    ctx.mc('SigList', 'MC_SigList.cfg', require_actions=['Do'], workers=8, note='slice / index semantics used for selections (shared with C20)')
    fam = RoundTrip()
    recs, bad = core.run_family(ctx, fam)
    idx = [x for r in recs for x in r['index']]
    fam2 = IndexLoaded()
    fam2.rule = 'index records of the loaded files'
    core.run_family(ctx, fam2, inputs=idx)
    tmp = tlc.mktmp('c12-')
    try:
        files = foreign_files(tmp)
        frecs = [foreign_record(c, p) for c, p in files]
        n, badf = tlc.judge('Judge_C12', frecs)
        for i, why in badf:
            r = frecs[i]
            ctx.report('foreign-files', dict(cls=r['class'], file=r['file']), r, why, key=f'foreign:{r["class"]}:{r["outcome"]}',
                       describe=f'{r["class"]} ({r["file"]}) -> {r["outcome"]} {r["detail"]}')
        ctx.traces += n
        ctx.evaluations += n
        for r in frecs:
            ctx.nontrivial_keys.add(('foreign', r['file']))
        ctx.families.append(dict(name='foreign-files', records=n, rejected=len(badf), judge='Judge_C12',
                                 outcomes={r['file']: r['outcome'] for r in frecs}))
        ctx.rule_parts.append('[foreign-files] empty, 1-7 byte prefixes of the HDF5 magic, text, FASTA, gzip, JSON, binary, sqlite, HDF5 magic '
                              'alone / followed by garbage / zeros, valid HDF5 without the marker (datasets only, other attributes, marker on a '
                              'sub-group only) must raise SignaturesFileError; truncated .gs, marker without datasets, other format version '
                              'must fail with some error')
        # self-test of the foreign judge
        _, b2 = tlc.judge('Judge_C12', [dict(frecs[0], outcome='loaded'), dict(frecs[0], outcome='other:OSError')])
        ctx.selftests.append(dict(family='foreign-files', corrupted=2, rejected=len(b2)))
        if len(b2) != 2:
            raise tlc.MachineryError('self-test: foreign judge accepted a loaded / wrongly refused foreign file')
    finally:
        shutil.rmtree(tmp, ignore_errors=True)
    ctx.assumptions += ['k-mer values and big ids are shipped as decimal strings, text as code-point lists (TLC integers are 32-bit)',
                        'strings with embedded NUL are excluded (h5py refuses them at write time)',
                        'damaged or unknown-version signature files (truncated, marker without datasets, other version) only need to fail']


def replay(ctx, scen):
    if scen['family'] == 'foreign-files':
        tmp = tlc.mktmp('c12r-')
        try:
            files = [(c, p) for c, p in foreign_files(tmp) if os.path.basename(p) == scen['inputs']['file']]
            n, bad = tlc.judge('Judge_C12', [foreign_record(*files[0])])
            return not bad
        finally:
            shutil.rmtree(tmp, ignore_errors=True)
    fam = RoundTrip() if scen['family'] == 'round-trip' else IndexLoaded()
    recs, bad = core.run_family(ctx, fam, inputs=[scen['inputs']])
    return not bad
