"""C20 - signature collections index like NumPy sequences and compare by content."""
import atexit
import itertools
import os
import shutil

import numpy as np

from gambit.kmers import KmerSpec
from gambit.sigs import SignatureArray, SignatureList, AnnotatedSignatures, dump_signatures, load_signatures
from gambit.sigs.base import AbstractSignatureArray
from .. import core, tlc
from ..enc import blist, opt

_TMP = None
_H5 = {}


def tmpdir():
    global _TMP
    if _TMP is None:
        _TMP = tlc.mktmp('c20-')
        atexit.register(shutil.rmtree, _TMP, True)
    return _TMP


def dts(dt):
    dt = np.dtype(dt)
    return f'{dt.kind}{dt.itemsize}'


def make_items(n, variant=0):
    """n distinct small signatures (sorted ints), one of them empty when n >= 3"""
    items = []
    for j in range(n):
        size = (j + variant) % 4
        items.append([10 * j + t for t in range(size)])
    return items


def build(cont, items, k, prefix, dtype):
    ks = KmerSpec(k, prefix)
    arrs = [np.array(it, dtype=dtype) for it in items]
    if cont == 'array':
        return SignatureArray(arrs, ks, dtype=np.dtype(dtype))
    if cont == 'list':
        return SignatureList(arrs, ks, dtype=np.dtype(dtype))
    if cont == 'window':
        # a zero-copy window into a larger collection (shared values array, bounds[0] != 0)
        pad = [np.array([1, 2], dtype=dtype), np.array([3], dtype=dtype)]
        full = SignatureArray(pad + arrs + pad, ks, dtype=np.dtype(dtype))
        return SignatureArray.from_arrays(full.values, full.bounds[2:len(arrs) + 3], ks)
    if cont == 'annotated':
        return AnnotatedSignatures(SignatureArray(arrs, ks, dtype=np.dtype(dtype)), [f'id{j}' for j in range(len(items))])
    if cont == 'hdf5':
        key = core.canon([items, k, prefix, dtype])
        if key not in _H5:
            path = os.path.join(tmpdir(), f'c{len(_H5)}.gs')
            dump_signatures(path, SignatureArray(arrs, ks, dtype=np.dtype(dtype)))
            _H5[key] = load_signatures(path)
        return _H5[key]
    if cont == 'hdf5-group':
        # several collections stored as groups of ONE open HDF5 file (the documented use of HDF5Signatures.create / HDF5Signatures(group))
        import h5py
        from gambit.sigs.hdf5 import HDF5Signatures
        if 'shared' not in _H5:
            _H5['shared'] = h5py.File(os.path.join(tmpdir(), f'shared_{os.getpid()}.h5'), 'w')
        key = 'g:' + core.canon([items, k, prefix, dtype])
        if key not in _H5:
            grp = _H5['shared'].create_group(f'set{len(_H5)}')
            HDF5Signatures.create(grp, SignatureArray(arrs, ks, dtype=np.dtype(dtype)))
            _H5[key] = grp.name
        return HDF5Signatures(_H5['shared'][_H5[key]])
    raise ValueError(cont)


def coll_desc(items, k, prefix, dtype):
    return dict(items=items, k=k, prefix=blist(prefix.encode()), dtype=dts(dtype))


def proj(res):
    out = dict(kind='error', items=[], k=0, prefix=[], dtype='', err='', bounds=[], nvalues=0)
    if isinstance(res, np.ndarray) or hasattr(res, 'dtype') and hasattr(res, '__len__') and not isinstance(res, AbstractSignatureArray):
        arr = np.asarray(res)
        out.update(kind='item', items=[[int(v) for v in arr]], dtype=dts(arr.dtype))
    elif isinstance(res, AbstractSignatureArray):
        out.update(kind='coll', items=[[int(v) for v in np.asarray(s)] for s in res], dtype=dts(res.dtype))
        ks = res.kmerspec
        if ks is not None:
            out.update(k=int(ks.k), prefix=blist(ks.prefix))
        if isinstance(res, SignatureArray):
            out['bounds'] = [int(b) for b in res.bounds]
            out['nvalues'] = int(len(res.values))
    else:
        out.update(kind='other', err=type(res).__name__)
    return out


def to_index(ix):
    """JSON index description -> (python index object, list to compare afterwards or None)"""
    t = ix['t']
    if t == 'int':
        return (np.int64(ix['v']) if ix.get('np') else ix['v']), None
    if t == 'slice':
        g = lambda o: None if o == [] else o[0]
        return slice(g(ix['a']), g(ix['b']), g(ix['s'])), None
    if t == 'ints':
        how = ix.get('as', 'list')
        if how == 'range':
            obj = range(*ix['r'])
            return obj, obj
        if how == 'list':
            obj = list(ix['v'])
        elif how == 'tuple':
            obj = list(ix['v'])
        else:
            obj = np.array(ix['v'], dtype=how)
        return obj, obj
    if t == 'mask':
        obj = np.array(ix['v'], dtype=bool) if ix.get('as', 'np') == 'np' else list(map(bool, ix['v']))
        return obj, obj
    w = ix['what']
    bad = {'float': 1.0, 'str': '1', 'none': None, '2d': np.zeros((1, 1), dtype=int), 'floatlist': [0.5], 'floatarr': np.array([0.0]),
           'slicefloat': slice(0.0, 2), 'slicestr': slice('a', None), 'strlist': ['a'], 'objarr': np.array([None], dtype=object)}
    return bad[w], None


def index_record(inp):
    items, k, prefix, dtype = inp['items'], inp['k'], inp['prefix'], inp['dtype']
    r = dict(op='index', cont=inp['cont'], coll=coll_desc(items, k, prefix, dtype), ix={x: v for x, v in inp['ix'].items() if x not in ('as', 'np')},
             ix_after=[])
    obj, watch = to_index(inp['ix'])
    if '_real' in inp:
        real = inp['_real']
        how = inp['ix'].get('as')
        if isinstance(real, list):
            obj = list(real) if how == 'list' else np.array(real, dtype=how)
        else:
            obj = real
        watch = None
        before = list(obj) if isinstance(real, list) else None
    try:
        if inp['cont'] == 'pylist':
            lst = [tuple(it) for it in items]
            if inp['ix']['t'] in ('int', 'slice') or (inp['ix']['t'] == 'bad' and inp['ix']['what'] in ('float', 'str', 'none', 'slicefloat', 'slicestr')):
                res = lst[obj]
                res = [res] if inp['ix']['t'] == 'int' else res
                kind = 'item' if inp['ix']['t'] == 'int' else 'coll'
            else:
                arr = np.empty(len(lst), dtype=object)
                for j, it in enumerate(lst):
                    arr[j] = it
                if inp['ix']['t'] == 'mask' and len(obj) != len(lst):
                    raise IndexError('mask length')
                res = list(arr[np.asarray(obj) if len(obj) else np.empty(0, dtype=int)])
                kind = 'coll'
            r['res'] = dict(kind=kind, items=[list(x) for x in res], k=0, prefix=[], dtype='', err='', bounds=[], nvalues=0)
        else:
            coll = build(inp['cont'], items, k, prefix, dtype)
            r['res'] = proj(coll[obj])
    except Exception as e:
        r['res'] = dict(kind='error', items=[], k=0, prefix=[], dtype='', err=type(e).__name__, bounds=[], nvalues=0)
    if watch is not None:
        r['ix_after'] = [bool(v) if inp['ix']['t'] == 'mask' else int(v) for v in watch]
    elif '_real' in inp and isinstance(inp['_real'], list):
        # the record carries representative values: report "unmodified" by echoing them iff the real index object is unchanged
        r['ix_after'] = list(inp['ix']['v']) if [int(x) for x in obj] == [int(x) for x in before] else []
    return r


def eq_record(inp):
    a, b = inp['a'], inp['b']
    r = dict(op='eq', a=coll_desc(a['items'], a['k'], a['prefix'], a['dtype']), b=coll_desc(b['items'], b['k'], b['prefix'], b['dtype']),
             ok=False, eq=False, eq_rev=False, ne=True)
    try:
        ca = build(a['cont'], a['items'], a['k'], a['prefix'], a['dtype'])
        cb = build(b['cont'], b['items'], b['k'], b['prefix'], b['dtype'])
        r['eq'] = bool(ca == cb)
        r['eq_rev'] = bool(cb == ca)
        r['ne'] = bool(ca != cb)
        r['ok'] = True
    except Exception as e:
        r['err'] = type(e).__name__
    return r


def sig(v, dtype='u2'):
    """a signature identified by its first element v, of length 1 + v % 3 (so that same-count mutations change sizes)"""
    return np.array([v + 1000 * t for t in range(1 + v % 3)], dtype=dtype)


def apply_op(sl, o):
    g = lambda x: None if x == [] else x[0]
    op = o['op']
    if op == 'setitem':
        sl[o['i']] = sig(o['v'])
    elif op == 'delitem':
        del sl[o['i']]
    elif op == 'insert':
        sl.insert(o['i'], sig(o['v']))
    elif op == 'append':
        sl.append(sig(o['v']))
    elif op == 'extend':
        sl.extend([sig(v) for v in o['vs']])
    elif op == 'pop':
        sl.pop(o['i'])
    elif op == 'reverse':
        sl.reverse()
    elif op == 'clear':
        sl.clear()
    elif op == 'delslice':
        del sl[slice(g(o['a']), g(o['b']), g(o['s']))]
    elif op == 'setslice':
        sl[slice(g(o['a']), g(o['b']), g(o['s']))] = [sig(v) for v in o['vs']]
    else:
        raise ValueError(op)


def state_of(sl):
    return [int(np.asarray(s)[0]) for s in sl]


def mut_record(init, ops):
    ks = KmerSpec(8, 'ATG')
    sl = SignatureList([sig(v) for v in init], ks, dtype=np.dtype('u2'))
    r = dict(op='mut', init=list(init), steps=[])
    for o in ops:
        err = ''
        try:
            apply_op(sl, o)
        except Exception as e:
            err = type(e).__name__
        meta_ok = sl.kmerspec == ks and sl.dtype == np.dtype('u2') and len(sl) == len(state_of(sl))
        # after every step the collection equals a freshly built one with the same content (both ways), its sizes are those of its
        # signatures, and it differs from one with another first signature
        now = state_of(sl)
        fresh = SignatureList([sig(v) for v in now], ks, dtype=np.dtype('u2'))
        other = SignatureList([sig(v + 1) for v in now[:1]] + [sig(v) for v in now[1:]], ks, dtype=np.dtype('u2'))
        meta_ok = meta_ok and bool(sl == fresh) and bool(fresh == sl) and not bool(sl != fresh) \
            and [int(x) for x in sl.sizes()] == [1 + v % 3 for v in now] and (not now or (bool(sl != other) and not bool(sl == other)))
        r['steps'].append(dict(o=o, err=err, after=state_of(sl), meta_ok=bool(meta_ok)))
    return r


def alias_record(inp):
    """sub = sl[ix]; one of the two is mutated; both are observed"""
    ks = KmerSpec(8, 'ATG')
    sl = SignatureList([sig(v) for v in inp['init']], ks, dtype=np.dtype('u2'))
    r = dict(op='alias', init=list(inp['init']), ix=inp['ix'], o=inp['o'], who=inp['who'], ok=False, err='', parent_after=[], sub_after=[])
    try:
        sub = sl[to_index(inp['ix'])[0]]
        r['ok'] = isinstance(sub, SignatureList)
        try:
            apply_op(sub if inp['who'] == 'sub' else sl, inp['o'])
        except Exception as e:
            r['err'] = type(e).__name__
        r['parent_after'] = state_of(sl)
        r['sub_after'] = state_of(sub)
    except Exception as e:
        r['err'] = 'indexing:' + type(e).__name__
    return r


class Fam(core.Family):
    judge = 'Judge_C20'

    def execute(self, inp):
        if inp['op'] == 'alias':
            return alias_record(inp)
        if inp['op'] == 'index':
            return index_record(inp)
        if inp['op'] == 'eq':
            return eq_record(inp)
        return mut_record(inp['init'], inp['ops'])

    def describe(self, inp, rec):
        return core.canon(inp)[:300]


KS = [(8, 'ATG', 'u2'), (8, 'ATG', 'u8'), (20, 'AC', 'u8')]


def slice_indices(rng_vals, steps):
    opts = [[]] + [[v] for v in rng_vals]
    for a in opts:
        for b in opts:
            for s in steps:
                yield dict(t='slice', a=a, b=b, s=s)


def index_exprs(n, tier, big=False):
    R = 4 if tier == 'quick' else 7
    for i in range(-n - 2, n + 2):
        yield dict(t='int', v=i)
        yield dict(t='int', v=i, np=True)
    steps = [[], [1], [2], [3], [-1], [-2], [-3], [0]]
    yield from slice_indices(range(-R, R + 1), steps)
    vals = list(range(-n - 1, n + 1))
    maxlen = 3 if n <= 3 or tier == 'thorough' else 2
    for m in range(0, maxlen + 1):
        for t in itertools.product(vals, repeat=m):
            yield dict(t='ints', v=list(t), **{'as': 'list'})
            if all(-128 <= v <= 127 for v in t) and m:
                yield dict(t='ints', v=list(t), **{'as': 'i1'})
            if m and all(v >= 0 for v in t):
                yield dict(t='ints', v=list(t), **{'as': 'u8'})
            if m == 2:
                yield dict(t='ints', v=list(t), **{'as': 'i8'})
                yield dict(t='ints', v=list(t), **{'as': 'i2'})
    # range objects are sequences of integers too (a range and a slice with the same numbers select differently when stop is negative)
    for a in range(-2, n + 2):
        for b in range(-n - 2, n + 3):
            for st in (1, 2, -1, -2):
                r = range(a, b, st)
                if len(r) <= 6:
                    yield dict(t='ints', v=list(r), r=[a, b, st], **{'as': 'range'})
    for m in (n - 1, n, n + 1):
        if m < 0:
            continue
        for t in itertools.product([False, True], repeat=m):
            yield dict(t='mask', v=list(t), **{'as': 'np'})
            if m == n:
                yield dict(t='mask', v=list(t), **{'as': 'list'})
    for w in ('float', 'str', 'none', '2d', 'floatlist', 'floatarr', 'slicefloat', 'slicestr', 'strlist'):
        yield dict(t='bad', what=w)


class Indexing(Fam):
    name = 'indexing'
    exhaustive = True

    def inputs(self, ctx):
        nmax = 4 if ctx.tier == 'quick' else 5
        self.rule = (f'collections of length 0..{nmax} (array / list / annotated wrapper / HDF5 file / zero-copy window with bounds[0] != 0), three (k, prefix, dtype) variants incl. a '
                     f'dtype wider than the natural one; every int in -n-2..n+1, every slice with start/stop in a range or None and step in '
                     f'+-1..3/None/0, every int list of length <=3 over -n-1..n (list, int8, int16, int64, uint64 arrays), range objects with any start/stop and steps +-1, +-2, every mask of '
                     f'length n-1..n+1, ill-typed indices; non-trivial = n >= 2')
        for n in range(0, nmax + 1):
            items = make_items(n)
            for ci, cont in enumerate(['array', 'list', 'hdf5', 'annotated', 'window']):
                if cont in ('hdf5', 'annotated') and n == 0:
                    continue
                if cont == 'window' and n % 2 == 0 and ctx.tier == 'quick':
                    continue
                for vi, (k, prefix, dtype) in enumerate(KS):
                    if vi and (n + ci) % 2:
                        continue      # widened / large-k variants on every other collection
                    for ix in index_exprs(n, ctx.tier):
                        if vi and ix['t'] == 'slice' and ix['s'] not in ([], [1], [-1]):
                            continue
                        yield dict(op='index', cont=cont, items=items, k=k, prefix=prefix, dtype=dtype, ix=ix)

    def nontrivial(self, inp, rec):
        return core.short_hash(inp) if len(inp['items']) >= 2 else None

    def corrupt(self, rec):
        if rec['res']['kind'] == 'coll' and rec['res']['items']:
            rec['res']['items'] = rec['res']['items'][::-1] if len(rec['res']['items']) > 1 and rec['res']['items'][0] != rec['res']['items'][-1] else rec['res']['items'][:-1]
            rec['res']['bounds'] = []
            return rec
        if rec['res']['kind'] == 'item':
            rec['res']['items'] = [rec['res']['items'][0] + [99]]
            return rec
        if rec['res']['kind'] == 'error':
            rec['res']['kind'] = 'coll'
            return rec
        return None


class LongNarrow(Fam):
    name = 'long-collection-narrow-index-dtypes'
    exhaustive = True
    rule = ('a 200-element collection (array, list, HDF5) indexed with int8 / uint8 / int16 arrays holding negative and boundary '
            'values (-1, -128, 127, -57, 199 ...), where len(collection) does not fit the index dtype')

    def inputs(self, ctx):
        items = [[j] for j in range(200)]
        for cont in ('array', 'list', 'hdf5'):
            for v in ([-1], [-128], [127, -1], [-57], [0, -200 + 256 - 256], [-100, 100, -1], [-127, -2]):
                for how in ('i1', 'i2', 'i8', 'list'):
                    if how == 'i1' and not all(-128 <= x <= 127 for x in v):
                        continue
                    yield dict(op='index', cont=cont, items=items, k=8, prefix='ATG', dtype='u2', ix=dict(t='ints', v=v, **{'as': how}))
            for v in ([199], [255], [200], [128, 199]):
                yield dict(op='index', cont=cont, items=items, k=8, prefix='ATG', dtype='u2', ix=dict(t='ints', v=v, **{'as': 'u1'}))

    nontrivial = Indexing.nontrivial
    corrupt = Indexing.corrupt


BIG = 10 ** 6      # representative of "far out of range" in the records shipped to TLC (TLC integers are 32-bit)


class ExtremeIndexValues(Fam):
    name = 'extreme-index-values'
    exhaustive = True
    rule = ('indices at the edges of the 64-bit ranges (2^64-1, 2^64-n, 2^63, 2^63-1, -2^63, 2^32, 2^31, ...) as Python ints, lists, uint64 and '
            'int64 arrays, alone and mixed with valid indices, on collections of length 3 and 200 in array / list / HDF5 containers: all must '
            'raise (values are shipped to TLC as +-10^6, equally out of range)')

    def inputs(self, ctx):
        for n, items in ((3, make_items(3)), (200, [[j] for j in range(200)])):
            ext = [2 ** 64 - 1, 2 ** 64 - n, 2 ** 64 - n - 1, 2 ** 63, 2 ** 63 - 1, 2 ** 32, 2 ** 31, 2 ** 31 - 1, 2 ** 16, -2 ** 63, -2 ** 31, -2 ** 63 + n]
            for cont in ('array', 'list', 'hdf5'):
                for v in ext:
                    forms = [('int', None)]
                    if 0 <= v < 2 ** 64:
                        forms += [('ints', 'u8'), ('ints', 'list')]
                    if -2 ** 63 <= v < 2 ** 63:
                        forms += [('ints', 'i8')]
                    for t, how in forms:
                        for mix in ([], [0]):
                            if t == 'int' and mix:
                                continue
                            yield dict(op='index', cont=cont, items=items, k=8, prefix='ATG', dtype='u2', real=([v] + mix if t == 'ints' else v),
                                       ix=(dict(t='int', v=BIG if v > 0 else -BIG) if t == 'int' else dict(t='ints', v=[BIG if v > 0 else -BIG] + mix, **{'as': how})))

    def execute(self, inp):
        # the record carries the representative value; the real call uses the extreme one
        real = inp['real']
        ix = dict(inp['ix'])
        rec_inp = dict(inp)
        r = index_record(dict(rec_inp, ix=ix, _real=real))
        return r

    nontrivial = Indexing.nontrivial

    def corrupt(self, rec):
        rec['res']['kind'] = 'coll'
        return rec


class Calibration(Fam):
    """The same index expressions on a plain Python list / NumPy object array: validates that the spec IS list semantics."""
    name = 'calibration-plain-list'
    exhaustive = True
    rule = 'calibration: the same index expressions applied to a plain Python list / NumPy object array must be accepted by the spec'

    def inputs(self, ctx):
        for n in range(0, 5):
            for ix in index_exprs(n, 'quick'):
                if ix['t'] == 'bad' and ix['what'] in ('strlist', '2d'):
                    continue
                if ix.get('np'):
                    continue
                yield dict(op='index', cont='pylist', items=make_items(n), k=8, prefix='ATG', dtype='u2', ix=ix)

    def nontrivial(self, inp, rec):
        return None


class Equality(Fam):
    name = 'equality'
    exhaustive = True
    rule = ('all ordered pairs from a family of collections differing in k, prefix, one element of one signature, length, integer width '
            'and container kind (array/list/hdf5/annotated/window/groups of one open HDF5 file), incl. collections holding the same k-mers end to end but split differently: == both ways and != ')

    def inputs(self, ctx):
        base = make_items(3)
        fam = []
        for cont in ('array', 'list', 'hdf5', 'annotated', 'window'):
            fam.append(dict(cont=cont, items=base, k=8, prefix='ATG', dtype='u2'))
        fam.append(dict(cont='array', items=base, k=8, prefix='ATG', dtype='u8'))
        fam.append(dict(cont='list', items=base, k=8, prefix='ATG', dtype='i8'))
        fam.append(dict(cont='array', items=base, k=9, prefix='ATG', dtype='u4'))
        fam.append(dict(cont='list', items=base, k=8, prefix='ATC', dtype='u2'))
        fam.append(dict(cont='array', items=base[:2], k=8, prefix='ATG', dtype='u2'))
        fam.append(dict(cont='hdf5', items=base + [[5]], k=8, prefix='ATG', dtype='u2'))
        changed = [list(x) for x in base]
        changed[2] = changed[2][:-1] + [changed[2][-1] + 1]
        fam.append(dict(cont='array', items=changed, k=8, prefix='ATG', dtype='u2'))
        fam.append(dict(cont='list', items=[base[1], base[0], base[2]], k=8, prefix='ATG', dtype='u2'))
        fam.append(dict(cont='list', items=[], k=8, prefix='ATG', dtype='u2'))
        fam.append(dict(cont='array', items=[], k=8, prefix='ATG', dtype='u2'))
        # the same k-mers end to end, split into signatures differently (boundaries matter, not only the concatenated values)
        flat = [v for it in base for v in it]
        for cont in ('array', 'hdf5', 'list'):
            fam.append(dict(cont=cont, items=[flat[:1], flat[1:-1], flat[-1:]], k=8, prefix='ATG', dtype='u2'))
        fam.append(dict(cont='array', items=[[], flat, []], k=8, prefix='ATG', dtype='u2'))
        fam.append(dict(cont='hdf5', items=[flat, [], []], k=8, prefix='ATG', dtype='u2'))
        fam.append(dict(cont='array', items=[[], [], flat], k=8, prefix='ATG', dtype='u2'))
        # collections kept as groups of one open file: equal ones, a changed one, another k, another split
        fam.append(dict(cont='hdf5-group', items=base, k=8, prefix='ATG', dtype='u2'))
        fam.append(dict(cont='hdf5-group', items=changed, k=8, prefix='ATG', dtype='u2'))
        fam.append(dict(cont='hdf5-group', items=base, k=9, prefix='ATG', dtype='u4'))
        fam.append(dict(cont='hdf5-group', items=[flat[:1], flat[1:-1], flat[-1:]], k=8, prefix='ATG', dtype='u2'))
        fam.append(dict(cont='hdf5-group', items=[], k=8, prefix='ATG', dtype='u2'))
        for a, b in itertools.product(fam, repeat=2):
            yield dict(op='eq', a=a, b=b)

    def nontrivial(self, inp, rec):
        return core.short_hash(inp) if inp['a'] != inp['b'] else None

    def corrupt(self, rec):
        rec['eq'] = not rec['eq']
        return rec


class RandomMutations(Fam):
    name = 'mutation-histories-random'
    exhaustive = False

    def inputs(self, ctx):
        n = 400 if ctx.tier == 'quick' else 5000
        self.rule = (f'{n} seeded random histories of 12 list mutations (setitem, delitem, insert, append, extend, pop, reverse, clear, '
                     f'slice assignment and deletion with any start/stop/step) on SignatureList, every step judged against list semantics')
        rng = ctx.rng
        for _ in range(n):
            init = [rng.randint(10, 99) for _ in range(rng.randint(0, 5))]
            ops = []
            for _ in range(12):
                kind = rng.choice(['setitem', 'delitem', 'insert', 'append', 'extend', 'pop', 'reverse', 'clear', 'delslice', 'setslice',
                                   'setslice', 'insert', 'append'])
                i = rng.randint(-8, 8)
                oi = lambda: [] if rng.random() < 0.3 else [rng.randint(-8, 8)]
                st = rng.choice([[], [1], [2], [3], [-1], [-2], [0]])
                v = rng.randint(10, 99)
                vs = [rng.randint(10, 99) for _ in range(rng.randint(0, 3))]
                o = dict(op=kind)
                if kind in ('setitem', 'insert'):
                    o.update(i=i, v=v)
                elif kind in ('delitem', 'pop'):
                    o.update(i=i)
                elif kind == 'append':
                    o.update(v=v)
                elif kind == 'extend':
                    o.update(vs=vs)
                elif kind == 'delslice':
                    o.update(a=oi(), b=oi(), s=st)
                elif kind == 'setslice':
                    o.update(a=oi(), b=oi(), s=st, vs=vs)
                ops.append(o)
            yield dict(op='mut', init=init, ops=ops)

    def nontrivial(self, inp, rec):
        return core.short_hash(inp) if any(s['err'] == '' for s in rec['steps']) else None

    def corrupt(self, rec):
        rec['steps'][-1]['after'] = rec['steps'][-1]['after'] + [5]
        return rec


class Aliasing(Fam):
    name = 'sub-collection-independence'
    exhaustive = True

    def inputs(self, ctx):
        self.rule = ('SignatureList of length 0..4 x every slice with start/stop in -5..5 or absent and step in {absent,1,2,-1,-2} (incl. all whole-range '
                     'spellings), index lists and masks x 8 mutations applied to the sub-collection or to the parent: the other object must not change')
        muts = [dict(op='delitem', i=0), dict(op='append', v=77), dict(op='insert', i=0, v=78), dict(op='setitem', i=-1, v=79), dict(op='pop', i=-1),
                dict(op='reverse'), dict(op='clear'), dict(op='extend', vs=[80, 81])]
        for n in range(0, 5):
            init = [10 + i for i in range(n)]
            ixs = list(slice_indices([-5, -n, -1, 0, 1, n, 5] if n else [-1, 0, 1], [[], [1], [2], [-1], [-2]]))
            ixs += [dict(t='ints', v=list(range(n))), dict(t='ints', v=list(range(n))[::-1]), dict(t='mask', v=[True] * n), dict(t='ints', v=[])]
            seen = set()
            for ix in ixs:
                key = core.canon(ix)
                if key in seen:
                    continue
                seen.add(key)
                for mi, o in enumerate(muts):
                    for who in ('sub', 'parent'):
                        if ctx.tier == 'quick' and (mi + len(key) + (who == 'sub')) % 3:
                            continue
                        yield dict(op='alias', init=init, ix=ix, o=o, who=who)

    def nontrivial(self, inp, rec):
        return core.short_hash(inp) if rec['ok'] and rec['err'] == '' else None

    def corrupt(self, rec):
        if rec['who'] == 'sub':
            rec['parent_after'] = rec['parent_after'] + [5]
        else:
            rec['sub_after'] = rec['sub_after'] + [5]
        return rec


def replay_spec_histories(ctx):
    """Generator direction: TLC produces mutation histories (with the expected state after every step) from SigList;
    they are replayed on the real SignatureList and the abstract state is compared after each action."""
    num = 300 if ctx.tier == 'quick' else 3000
    res = tlc.run_tlc('SigList', 'Gen_SigList.cfg', workers=1, timeout=1500,
                      extra=['-simulate', f'num={num}', '-depth', '8', '-seed', str(ctx.seed % 100000)])
    hists = {core.canon(h): h for h in res.printed if isinstance(h, list) and h and isinstance(h[0], dict) and 'o' in h[0]}
    if len(hists) < num // 3:
        raise tlc.MachineryError(f'SigList generator produced only {len(hists)} histories')
    nsteps = 0
    for key, h in hists.items():
        init = h[0]['after']
        ops = [s['o'] for s in h[1:]]
        rec = mut_record(init, ops)
        for j, (exp, got) in enumerate(zip(h[1:], rec['steps'])):
            nsteps += 1
            same_err = (exp['err'] == '') == (got['err'] == '') and (exp['err'] == '' or got['err'] in (exp['err'], 'TypeError' if exp['err'] == 'IndexError' else exp['err']))
            if got['after'] != exp['after'] or not same_err or not got['meta_ok']:
                ctx.report('spec-history-replay', dict(init=init, ops=ops), dict(step=j, expected=exp, observed=got),
                           ['state-after-step-differs-from-specification'], key=f'spec-history-replay:{core.short_hash(ops[j])}',
                           describe=f'step {j}: {ops[j]} expected {exp["after"]}/{exp["err"]!r} observed {got["after"]}/{got["err"]!r}')
                break
        ctx.nontrivial_keys.add(('spec-history-replay', core.short_hash(h)))
    ctx.traces += len(hists)
    ctx.evaluations += len(hists)
    ctx.exhaustive_all = False
    ctx.families.append(dict(name='spec-history-replay', records=len(hists), steps=nsteps, generator='TLC -simulate of SigList (Record=TRUE)'))
    ctx.rule_parts.append(f'[spec-history-replay] {len(hists)} distinct mutation histories of depth 6 generated by TLC from SigList, replayed on SignatureList')
    ctx.add_samples([dict(family='spec-history-replay', history=next(iter(hists.values())))], limit=1)


FAMILIES = [Indexing, LongNarrow, ExtremeIndexValues, Equality, RandomMutations, Aliasing]


def run(ctx):
    ctx.mc('SigList', 'MC_SigList.cfg', require_actions=['Do'], workers=8,
           note='list mutations: every transition satisfies its independently stated postcondition; slice closed form == stepping (ASSUME)')
    cal = Calibration()
    recs, bad = core.run_family(ctx, cal)
    if bad:
        raise tlc.MachineryError(f'calibration failed: the specification rejects plain Python list behaviour: {bad[:3]}')
    ctx.violations.clear()
    for F in FAMILIES:
        core.run_family(ctx, F())
    conc = [i for i in list(Indexing().inputs(ctx))[::97] if i['cont'] != 'hdf5'][:150]
    core.run_concurrent(ctx, Indexing(), conc, secs=3 if ctx.tier == 'quick' else 15, name='concurrent-callers')
    core.run_concurrent(ctx, RandomMutations(), list(RandomMutations().inputs(ctx))[:40], secs=2 if ctx.tier == 'quick' else 10, name='concurrent-mutation-histories')
    replay_spec_histories(ctx)
    ctx.assumptions += ['signature contents are shipped verbatim (small ints); selected positions are identified by content',
                        'step 0 slices: ValueError accepted (what a plain list raises)']


def replay(ctx, scen):
    if scen['family'] == 'spec-history-replay':
        rec = mut_record(scen['inputs']['init'], scen['inputs']['ops'])
        n, bad = tlc.judge('Judge_C20', [rec])
        return not bad
    if scen['family'] not in {F.name for F in FAMILIES}:
        return core.RERUN            # reported outside a judged family: replay by re-running the check
    fam = {F.name: F for F in FAMILIES}[scen['family']]()
    recs, bad = core.run_family(ctx, fam, inputs=[scen['inputs']])
    return not bad
