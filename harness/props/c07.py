"""C07 - k-mer/index conversion is the base-4 bijection, consistent with revcomp."""
import itertools

from Bio.Seq import Seq

from gambit import kmers as gk
from gambit.seq import revcomp
from .. import core
from ..enc import blist, digits4

NUC = b'ACGT'
TYPES = {
    'bytes': bytes,
    'bytearray': bytearray,
    'str': lambda b: bytes(b).decode('latin-1') if max(b, default=0) < 128 else None,
    'Seq': lambda b: Seq(bytes(b)),
}


def conv(typ, b):
    if typ == 'text':
        return ''.join(chr(c) for c in b)          # a str k-mer given as code points (may lie outside ASCII / Latin-1)
    return TYPES[typ](bytes(b))


def rec_k2i(op, typ, kmer, prev=None):
    f = gk.kmer_to_index if op == 'k2i' else gk.kmer_to_index_rc
    if typ in ('bytearray-reused', 'bytes-after-reused'):
        # ONE mutable buffer converted with other contents first (a sliding-window buffer), then refilled in place; the k-mer is then given
        # as that buffer itself or as fresh bytes equal to its new contents
        buf = bytearray(prev if prev is not None else kmer)
        for g in (gk.kmer_to_index, gk.kmer_to_index_rc):
            try:
                g(buf)
            except Exception:
                pass
        buf[:] = bytes(kmer)
        arg = buf if typ == 'bytearray-reused' else bytes(kmer)
        typ = 'bytes'
    else:
        arg = conv(typ, kmer)
    r = dict(op=op, typ=typ, kmer=(list(kmer) if typ == 'text' else blist(kmer)), ok=False, err='', digits=[], val=-1, inrange=True)
    try:
        idx = f(arg)
    except Exception as e:
        r['err'] = 'ValueError' if isinstance(e, ValueError) else type(e).__name__      # UnicodeEncodeError is a ValueError
        return r
    k = len(kmer)
    r['ok'] = True
    idx = int(idx)
    r['inrange'] = 0 <= idx < 4 ** k
    r['digits'] = digits4(idx, k)
    r['val'] = idx if k <= 15 and r['inrange'] else -1
    return r


def rec_i2k(digits):
    k = len(digits)
    idx = 0
    for d in digits:
        idx = idx * 4 + d
    r = dict(op='i2k', digits=list(digits), kmer=[], ok=False, err='')
    try:
        out = gk.index_to_kmer(idx, k)
        r['kmer'] = blist(out)
        r['ok'] = isinstance(out, bytes)
        # the same call with k and the index as NumPy scalars (what a KmerSpec read from a signature file / an element of a signature holds)
        import numpy as np
        for kt in (np.int64, np.uint8, np.int32, np.uint64):
            try:
                o2 = gk.index_to_kmer(np.uint64(idx) if kt is not np.int32 else idx, kt(k))
            except Exception as e:
                r['ok'] = False
                r['err'] = f'{type(e).__name__} for k of type {kt.__name__}'
                break
            if bytes(o2) != bytes(out):
                r['kmer'] = blist(o2)
                r['ok'] = False
                r['err'] = f'differs for k of type {kt.__name__}'
    except Exception as e:
        r['err'] = type(e).__name__
    return r


def rec_revcomp(seq, involution=False):
    r = dict(op='involution' if involution else 'revcomp', seq=blist(seq), out=[], out2=[], ok=False, err='')
    try:
        arg = bytes(seq)
        before = bytes(arg)
        out = revcomp(arg)
        r['out'] = blist(out)
        r['ok'] = isinstance(out, bytes) and arg == before
        if involution:
            r['out2'] = blist(revcomp(out))
    except Exception as e:
        r['err'] = type(e).__name__
    return r


class Fam(core.Family):
    judge = 'Judge_C07'
    procs = 16

    def execute(self, inp):
        op = inp[0]
        if op in ('k2i', 'k2irc'):
            return rec_k2i(op, inp[1], (inp[2] if inp[1] == 'text' else bytes(inp[2])), prev=(bytes(inp[3]) if len(inp) > 3 else None))
        if op == 'i2k':
            return rec_i2k(inp[1])
        return rec_revcomp(bytes(inp[1]), involution=(op == 'involution'))

    def corrupt(self, rec):
        if rec['op'] in ('k2i', 'k2irc'):
            if not rec['ok']:
                rec['ok'] = True
                return rec
            rec['digits'][-1] = (rec['digits'][-1] + 1) % 4
            return rec
        if rec['op'] == 'i2k':
            rec['kmer'][0] = 67 if rec['kmer'][0] != 67 else 65
            return rec
        if not rec['out']:
            return None
        rec['out'][0] = (rec['out'][0] + 1) % 256
        return rec

    def nontrivial(self, inp, rec):
        # non-trivial: length >= 2 (a one-symbol input exercises no positional structure)
        body = inp[2] if inp[0] in ('k2i', 'k2irc') else inp[1]
        return core.short_hash(inp) if len(body) >= 2 else None


def case_variants(kmer, mode):
    if mode == 'upper':
        return kmer
    if mode == 'lower':
        return kmer.lower()
    return bytes(c if i % 2 else c + 32 for i, c in enumerate(kmer))   # mixed


class AllKmers(Fam):
    name = 'all-kmers'
    exhaustive = True

    def inputs(self, ctx):
        kmax = 6 if ctx.tier == 'quick' else 8
        self.rule = (f'every k-mer over ACGT for k<=%d in upper, lower and alternating case through kmer_to_index and '
                     f'kmer_to_index_rc (bytes), and every index through index_to_kmer; non-trivial = k>=2' % kmax)
        for k in range(1, kmax + 1):
            for t in itertools.product(NUC, repeat=k):
                km = bytes(t)
                for mode in ('upper', 'lower', 'mixed'):
                    v = case_variants(km, mode)
                    yield ['k2i', 'bytes', list(v)]
                    yield ['k2irc', 'bytes', list(v)]
            for d in itertools.product(range(4), repeat=k):
                yield ['i2k', list(d)]


class AllBytes2(Fam):
    name = 'all-byte-strings-le2'
    exhaustive = True
    rule = ('every byte string of length <=2 over 0..255 through kmer_to_index, kmer_to_index_rc, revcomp and '
            'revcomp-twice; non-trivial = length 2')

    def inputs(self, ctx):
        yield ['revcomp', []]
        for a in range(256):
            for op in ('k2i', 'k2irc'):
                yield [op, 'bytes', [a]]
            yield ['revcomp', [a]]
        for a in range(256):
            for b in range(256):
                yield ['k2i', 'bytes', [a, b]]
                yield ['k2irc', 'bytes', [a, b]]
                yield ['involution', [a, b]]


class Boundary(Fam):
    name = 'boundary-kmers'
    exhaustive = True
    rule = ('all-A, all-T, single-T (each position), alternating and one-invalid-byte k-mers for every k in 1..33 '
            '(k=33 must be rejected), in all four input types, plus str k-mers with one non-ASCII symbol; indices all-0 / all-3 / single-3 through index_to_kmer')

    def inputs(self, ctx):
        for k in range(1, 34):
            fams = [b'A' * k, b'T' * k, b'C' * k, b'G' * k, (b'ACGT' * 9)[:k], (b'tgca' * 9)[:k]]
            for p in range(k):
                fams.append(b'A' * p + b'T' + b'A' * (k - p - 1))
                fams.append(b'T' * p + b'a' + b'T' * (k - p - 1))
            for p in {0, k // 2, k - 1}:
                for bad in (b'N', b'@', b'`', b'U', b'\xc1', b' ', b'\x00'):
                    fams.append(b'C' * p + bad + b'G' * (k - p - 1))
            for km in fams:
                for typ in TYPES:
                    if conv(typ, km) is None:
                        continue
                    yield ['k2i', typ, list(km)]
                    yield ['k2irc', typ, list(km)]
                yield ['involution', list(km)]
            # text k-mers with one symbol outside ASCII (accented letter, C1 control, no-break space, look-alike letters, line separator)
            for p in {0, k // 2, k - 1}:
                for cp in (0xe9, 0x80, 0xa0, 0x410, 0xff21, 0x2028, 0x1d400):
                    km = [67] * p + [cp] + [71] * (k - p - 1)
                    yield ['k2i', 'text', km]
                    yield ['k2irc', 'text', km]
            if k <= 32:
                yield ['i2k', [0] * k]
                yield ['i2k', [3] * k]
                for p in range(k):
                    yield ['i2k', [0] * p + [3] + [0] * (k - p - 1)]
                    yield ['i2k', [3] * p + [1] + [3] * (k - p - 1)]


class Random(Fam):
    name = 'random'
    exhaustive = False

    def inputs(self, ctx):
        n = 3000 if ctx.tier == 'quick' else 40000
        self.rule = (f'{n} seeded random k-mers (k 1..32, random case, 10% with one foreign byte), random indices up to '
                     f'2^64-1 and random byte strings up to 200 bytes for revcomp')
        rng = ctx.rng
        for _ in range(n):
            k = rng.randint(1, 32)
            km = bytearray(rng.choice(b'ACGTacgt') for _ in range(k))
            if rng.random() < 0.1:
                km[rng.randrange(k)] = rng.randrange(256)
            typ = rng.choice(list(TYPES))
            if conv(typ, km) is None:
                typ = 'bytes'
            yield [rng.choice(['k2i', 'k2irc']), typ, list(km)]
            if rng.random() < 0.25:
                other = [rng.choice(b'ACGT') for _ in range(k)]
                yield [rng.choice(['k2i', 'k2irc']), rng.choice(['bytearray-reused', 'bytes-after-reused']), list(km), other]
            yield ['i2k', [rng.randrange(4) for _ in range(k)]]
            m = rng.randint(0, 200)
            yield ['involution', [rng.choice(b'ACGTacgtNn-*') if rng.random() < 0.9 else rng.randrange(256) for _ in range(m)]]


FAMILIES = [AllKmers, AllBytes2, Boundary, Random]


def long_revcomp_check(ctx):
    """sequences of 2^16 - 1 .. 2^20 bytes (thorough: 2^24), lengths at and next to multiples of 2^16: the result must be the reverse complements of
    500-byte pieces in reverse order (concatenation lemma model-checked); the first, the last and the pieces next to each multiple of 2^16
    are judged by TLC, all pieces enter the byte-wise comparison"""
    import random
    rng = random.Random(ctx.seed + 77)
    fam = Random()
    lengths = [(1 << 16) - 1, 1 << 16, (1 << 16) + 1, 1 << 17, 3 << 16, (1 << 18) + 5, 1 << 20]
    if ctx.tier == 'thorough':
        lengths += [5 << 16, (1 << 22), (1 << 24), (1 << 24) + 3]
    judged = []
    for L in lengths:
        seq = rng.randbytes(L).translate(bytes(b'ACGTacgtNn-*'[i % 12] for i in range(256)))
        step = 500
        pieces = [seq[a:a + step] for a in range(0, L, step)]
        expect = b''.join(revcomp(p) for p in reversed(pieces))
        try:
            got = revcomp(seq)
            err = ''
        except Exception as e:
            got, err = b'', type(e).__name__
        twice = revcomp(got) if not err else b''
        for j, p in enumerate(pieces):
            a = j * step
            if j in (0, len(pieces) - 1) or min(a % (1 << 16), (1 << 16) - a % (1 << 16)) <= step:
                judged.append(['revcomp', list(p)])
        ctx.traces += 1
        ctx.evaluations += 1
        ctx.nontrivial_keys.add(('long-revcomp', L))
        if err or got != expect or twice != seq or len(got) != L:
            first = next((i for i in range(min(len(got), len(expect))) if got[i] != expect[i]), min(len(got), len(expect)))
            ctx.report('long-revcomp', dict(length=L, seed=ctx.seed + 77), dict(err=err, out_len=len(got), first_difference=first, involution=(twice == seq)),
                       ['differs-from-reverse-complements-of-pieces-in-reverse-order'], key=f'long-revcomp:{L}',
                       describe=f'revcomp of {L} bytes: {err or ""} output length {len(got)}, first difference at {first}')
    core.run_family(ctx, fam, inputs=judged)
    ctx.families.append(dict(name='long-revcomp', records=len(lengths)))
    ctx.rule_parts.append(f'[long-revcomp] sequences of {lengths} bytes over ACGTacgtNn-*: equal to the reverse complements of 500-byte pieces in reverse order, '
                          'involution, length; pieces at the ends and around every multiple of 2^16 judged by TLC')


def run(ctx):
    ctx.mc('MC_KmerCodec', 'MC_KmerCodec.cfg', require_actions=['K2IStep', 'K2IRCStep', 'I2KStep', 'RevCompStep', 'Finish'],
           note='conversion loops == definition; 15-byte alphabet incl. @ ` ! 0xC1 0xF4, length <= 3; byte-range lemmas as ASSUMEs')
    if ctx.tier == 'thorough':
        ctx.mc('MC_KmerCodec', 'MC_KmerCodec_small.cfg', note='8-byte alphabet, length <= 4')
    for F in FAMILIES:
        core.run_family(ctx, F())
    long_revcomp_check(ctx)
    core.run_concurrent(ctx, Random(), list(Random().inputs(ctx))[:240], secs=3 if ctx.tier == 'quick' else 15, name='concurrent-callers')
    ctx.assumptions += ['int -> base-4 digit expansion and bytes <-> int lists are done by the harness (trusted projection); '
                        'for k<=15 TLC additionally checks the integer value itself',
                        'k-mer indices for k>15 are compared as digit tuples (TLC integers are 32-bit)']


def replay(ctx, scen):
    if scen['family'] not in {F.name for F in FAMILIES}:
        return core.RERUN            # reported outside a judged family: replay by re-running the check
    fam = {F.name: F for F in FAMILIES}[scen['family']]()
    recs, bad = core.run_family(ctx, fam, inputs=[scen['inputs']])
    return not bad
