"""Build real (transient) gambit ORM objects for abstract classification scenarios and project results back.

Scenario (all JSON-able):  parent[i] (0 = root, else 1-based index of the parent), thr[i] (-1 = no threshold, else rank),
report[i], gt[g] (1-based taxon of genome g), d[g] (distance rank).  Rank r stands for the float32 value r/16, which is
exactly representable in float32 and float64, so "distance exactly equal to a threshold" is reached and no rounding
semantics is involved.
"""
import itertools

import numpy as np

from gambit.db import Taxon, AnnotatedGenome, Genome

SCALE = 16.0


def val(rank):
    return rank / SCALE


def rank_of(x):
    if x is None:
        return -1
    r = float(x) * SCALE
    return int(r) if r == int(r) and 0 <= r <= 64 else -2


def forests(n):
    """all parent vectors with parent[t] < t (1-based), as lists"""
    return [list(p) for p in itertools.product(*[range(0, t) for t in range(1, n + 1)])]


class World:
    def __init__(self, parent, thr, report=None, gt=(), values=None, link='parent'):
        """values: optional strictly increasing list of floats; rank r then stands for values[r] instead of r/16 (thresholds are
        Python floats, i.e. doubles; distances are produced by dists() in the requested representation)"""
        self.values = values
        val = (lambda r: values[r]) if values else globals()['val']
        n = len(parent)
        report = report if report is not None else [True] * n
        self.taxa = []
        for i in range(n):
            t = Taxon(name=f'T{i + 1}', key=f'k{i + 1}', rank=f'r{i + 1}',
                      distance_threshold=None if thr[i] < 0 else val(thr[i]), report=bool(report[i]))
            self.taxa.append(t)
        for i in range(n):
            if parent[i]:
                if link == 'children':
                    self.taxa[parent[i] - 1].children.append(self.taxa[i])      # the forest built top-down, from the parents' side
                else:
                    self.taxa[i].parent = self.taxa[parent[i] - 1]
        self.tid = {id(t): i + 1 for i, t in enumerate(self.taxa)}
        self.genomes = []
        for g, ti in enumerate(gt):
            self.genomes.append(AnnotatedGenome(taxon=self.taxa[ti - 1], genome=Genome(key=f'g{g + 1}', description=f'G{g + 1}')))
        self.gid = {id(g): i + 1 for i, g in enumerate(self.genomes)}

    def t(self, taxon):
        return 0 if taxon is None else self.tid.get(id(taxon), -1)

    def g(self, genome):
        return 0 if genome is None else self.gid.get(id(genome), -1)

    def dists(self, d, how='f4'):
        vals = [self.values[x] if self.values else val(x) for x in d]
        if how == 'list':
            return list(vals)
        arr = np.array(vals, dtype=np.dtype(how))
        assert [float(v) for v in arr] == vals, 'distance values must be exact in the requested representation'
        return arr

    def rank_of(self, x):
        if self.values is None:
            return rank_of(x)
        if x is None:
            return -1
        return self.values.index(float(x)) if float(x) in self.values else -2
