"""Materialise tiny synthetic worlds for the system-level checks: FASTA files, signature files, reference databases.

A world description is JSON-able (so it can be shipped to TLC, which recomputes everything from the sequences):
  kspec: [k, prefix]
  taxa:  [{name, rank, parent (0 = root, else 1-based), thr (float32-exact float or None), report, ncbi_id}]
  genomes: [{key, desc, taxon (1-based), contigs: [str], genbank_acc, refseq_acc, ncbi_id}]
Builders use the repository's own ORM models and dump_signatures; whatever they produce is re-read through the code
under test and compared with TLC's expectation, so a builder fault shows up as a mismatch, not as a silent pass.
"""
import gzip
import os
import random

import numpy as np

from .enc import blist, f32_bits

COMP = bytes.maketrans(b'ACGT', b'TGCA')


def mutate(rng, seq, rate):
    s = list(seq)
    for i in range(len(s)):
        if rng.random() < rate:
            s[i] = rng.choice('ACGT')
    return ''.join(s)


def rand_seq(rng, n):
    return ''.join(rng.choice('ACGT') for _ in range(n))


def default_world(seed=1, k=5, prefix='AT', names='plain', hidden_root=False):
    """3-level taxonomy (genus > species > subspecies), 9 reference genomes incl. two identical ones, a threshold-less
    genus, an unreportable subspecies, a second root; thresholds are float32-exact."""
    rng = random.Random(seed)
    fancy = names == 'fancy'
    nm = lambda plain, f: f if fancy else plain
    taxa = [
        dict(name=nm('GenusA', 'Genus, "A"'), rank='genus', parent=0, thr=None, report=True, ncbi_id=100),
        dict(name=nm('Sp1', 'A sp.\n1'), rank='species', parent=1, thr=0.5, report=True, ncbi_id=101),
        dict(name=nm('Sp2', 'A spéc 2 ✓'), rank='species', parent=1, thr=0.375, report=True, ncbi_id=None),
        dict(name=nm('Sp1a', 'A sp1 "a"\r\nx'), rank='subspecies', parent=2, thr=0.25, report=False, ncbi_id=103),
        dict(name=nm('GenusB', ' Genus\rB '), rank='genus', parent=0, thr=0.75, report=True, ncbi_id=200),
        dict(name=nm('SpB1', 'B,sp,1\r'), rank=None, parent=5, thr=0.4375, report=True, ncbi_id=201),
    ]
    if hidden_root:
        # a lineage that is unreportable all the way to its root: predictions there have NO reported taxon
        taxa[4]['report'] = False
        taxa[5]['report'] = False
    core = {t: rand_seq(rng, 260) for t in (2, 3, 6)}
    core[4] = mutate(rng, core[2], 0.03)
    genomes = []

    def add(key, taxon, seq, ncontigs=1):
        cuts = sorted(rng.sample(range(20, len(seq) - 20), ncontigs - 1)) if ncontigs > 1 else []
        contigs = [seq[a:b] for a, b in zip([0] + cuts, cuts + [len(seq)])]
        i = len(genomes) + 1
        genomes.append(dict(key=key, desc=nm(f'genome {key}', f'génome "{key}", x\ny'), taxon=taxon, contigs=contigs,
                            genbank_acc=f'GCA_{i:04d}.1', refseq_acc=f'GCF_{i:04d}.1', ncbi_id=5000 + i))
    add('s1_a', 2, mutate(rng, core[2], 0.02))
    add('s1_b', 2, mutate(rng, core[2], 0.06), 2)
    add('s1a_a', 4, mutate(rng, core[4], 0.01))
    add('s1a_dup', 4, genomes[-1]['contigs'][0])                 # identical to the previous genome (zero distance, tie)
    add('s2_a', 3, mutate(rng, core[3], 0.02), 3)
    add('s2_b', 3, mutate(rng, core[3], 0.05))
    add('b1_a', 6, mutate(rng, core[6], 0.02))
    add('b1_b', 6, mutate(rng, core[6], 0.10), 2)
    add('gA_only', 1, rand_seq(rng, 240))                        # assigned to the threshold-less genus itself
    return dict(kspec=[k, prefix], taxa=taxa, genomes=genomes, key='tinydb', version='1.0')


def query_pool(world, seed=2):
    """query genomes: near a reference, identical to a reference, between species, unrelated, empty-signature"""
    rng = random.Random(seed)
    g = world['genomes']
    join = lambda x: ''.join(x['contigs'])
    pool = [
        dict(name='q_near_s1', contigs=[mutate(rng, join(g[0]), 0.02)]),
        dict(name='q_ident_s1a', contigs=list(g[2]['contigs'])),
        dict(name='q_mix', contigs=[join(g[0])[:130], join(g[4])[:130]]),
        dict(name='q_b', contigs=[mutate(rng, join(g[6]), 0.04)[:200], 'ACGTNNNNACGT']),
        dict(name='q_far', contigs=[rand_seq(rng, 220)]),
        dict(name='q_empty', contigs=['GGGGCCCCGGGG']),
    ]
    return pool


def soft_mask(c, period=7, run=3):
    """mixed case as in soft-masked assemblies: every `period`-th stretch of `run` letters in lower case (case boundaries fall inside
    prefix occurrences and k-mers)"""
    return ''.join(ch.lower() if (j % period) < run else ch for j, ch in enumerate(c))


def fasta_bytes(contigs, width=60, eol='\n', lower=False, mixed=False, final_eol=True):
    out = []
    for i, c in enumerate(contigs):
        c = c.lower() if lower else soft_mask(c, 7 + i, 3) if mixed else c
        out.append(f'>contig{i + 1} d{eol}')
        for a in range(0, max(len(c), 1), width):
            out.append(c[a:a + width] + eol)
    text = ''.join(out)
    if not final_eol and text.endswith(eol):
        text = text[:-len(eol)]
    return text.encode()


def gzip_bytes(data, members=1):
    """gzip file with the given number of members (a concatenation of gzip streams is a valid gzip file, RFC 1952)"""
    if members <= 1 or len(data) < members:
        return gzip.compress(data)
    cuts = [len(data) * i // members for i in range(members + 1)]
    return b''.join(gzip.compress(data[a:b]) for a, b in zip(cuts, cuts[1:]))


def write_fasta(path, contigs, gz=False, members=1, **kw):
    data = fasta_bytes(contigs, **kw)
    os.makedirs(os.path.dirname(path), exist_ok=True)
    with open(path, 'wb') as f:
        f.write(gzip_bytes(data, members) if gz else data)
    return path


def real_signature(kspec, contigs):
    from gambit.kmers import KmerSpec
    from gambit.sigs.calc import calc_signature
    return calc_signature(KmerSpec(kspec[0], kspec[1]), [c.encode() for c in contigs])


def build_db(dirpath, world, *, id_attr='key', sig_order=None, extra_sigs=(), gdb_name='ref.gdb', gs_name='ref.gs',
             int_ids=False, genome_order=None, annot_order=None, orphans=()):
    """Write <dir>/ref.gdb (sqlite, via the repo's models) and <dir>/ref.gs (via dump_signatures).

    sig_order: order of the genomes' signatures in the file (list of 0-based genome indices); extra_sigs: (id, contigs)
    of unrelated signatures; they are placed at the positions given by their 'pos' (index into the final list)."""
    from sqlalchemy import create_engine
    from sqlalchemy.orm import Session
    from gambit.db.models import Base, ReferenceGenomeSet, Taxon, Genome, AnnotatedGenome
    from gambit.kmers import KmerSpec
    from gambit.sigs import SignatureArray, AnnotatedSignatures, SignaturesMeta, dump_signatures
    os.makedirs(dirpath, exist_ok=True)
    gdb = os.path.join(dirpath, gdb_name)
    if os.path.exists(gdb):
        os.remove(gdb)
    engine = create_engine(f'sqlite:///{gdb}')
    Base.metadata.create_all(engine)
    with Session(engine) as s:
        gset = ReferenceGenomeSet(key=world.get('key', 'tinydb'), version=world.get('version', '1.0'), name='tiny db', description='synthetic')
        s.add(gset)
        taxa = []
        for i, t in enumerate(world['taxa']):
            taxa.append(Taxon(key=f'tax{i + 1}', name=t['name'], rank=t['rank'], distance_threshold=t['thr'], report=t['report'],
                              ncbi_id=t['ncbi_id'], genome_set=gset))
        for i, t in enumerate(world['taxa']):
            if t['parent']:
                taxa[i].parent = taxa[t['parent'] - 1]
        s.add_all(taxa)
        order = genome_order if genome_order is not None else list(range(len(world['genomes'])))
        if annot_order is None:
            for gi in order:
                g = world['genomes'][gi]
                genome = Genome(key=g['key'], description=g['desc'], ncbi_db=g.get('ncbi_db', 'assembly'), ncbi_id=g.get('ncbi_id'),
                                genbank_acc=g.get('genbank_acc'), refseq_acc=g.get('refseq_acc'))
                s.add(AnnotatedGenome(genome=genome, genome_set=gset, taxon=taxa[g['taxon'] - 1], organism='org'))
        else:
            # genomes imported first, attached to the genome set later and in another order (rows of the two tables in different orders)
            rows = {}
            for gi in order:
                g = world['genomes'][gi]
                rows[gi] = Genome(key=g['key'], description=g['desc'], ncbi_db=g.get('ncbi_db', 'assembly'), ncbi_id=g.get('ncbi_id'),
                                  genbank_acc=g.get('genbank_acc'), refseq_acc=g.get('refseq_acc'))
                s.add(rows[gi])
                s.flush()
            for gi in annot_order:
                g = world['genomes'][gi]
                s.add(AnnotatedGenome(genome=rows[gi], genome_set=gset, taxon=taxa[g['taxon'] - 1], organism='org'))
                s.flush()
        s.commit()
        if orphans:
            # annotation rows left over from ANOTHER genome set whose row was deleted with plain SQL (SQLite does not cascade by default):
            # (genome index or a dict describing a genome that is in no set, taxon index)
            from sqlalchemy import text
            old = ReferenceGenomeSet(key='old-set', version='0.9', name='old', description='removed')
            s.add(old)
            oldtax = Taxon(key='oldtax', name='Old species', rank='species', distance_threshold=0.9, report=True, genome_set=old)
            s.add(oldtax)
            s.flush()
            for gref in orphans:
                if isinstance(gref, dict):
                    gobj = Genome(key=gref['key'], description=gref.get('desc', 'foreign'), ncbi_db='assembly', ncbi_id=gref.get('ncbi_id'),
                                  genbank_acc=gref.get('genbank_acc'), refseq_acc=gref.get('refseq_acc'))
                    s.add(gobj)
                else:
                    gobj = s.query(Genome).filter_by(key=world['genomes'][gref]['key']).one()
                s.add(AnnotatedGenome(genome=gobj, genome_set=old, taxon=oldtax, organism='old'))
            s.commit()
            s.execute(text('DELETE FROM genome_sets WHERE key = :k'), dict(k='old-set'))
            s.commit()
    engine.dispose()
    ks = KmerSpec(world['kspec'][0], world['kspec'][1])
    sig_order = sig_order if sig_order is not None else list(range(len(world['genomes'])))
    entries = []
    for gi in sig_order:
        g = world['genomes'][gi]
        idv = g[id_attr] if id_attr in ('key', 'genbank_acc', 'refseq_acc', 'ncbi_id') else g['key']
        entries.append((idv, real_signature(world['kspec'], g['contigs'])))
    for ex in sorted(extra_sigs, key=lambda e: e['pos']):
        entries.insert(ex['pos'], (ex['id'], real_signature(world['kspec'], ex['contigs'])))
    ids = [e[0] for e in entries]
    sigs = SignatureArray([e[1] for e in entries], ks)
    meta = SignaturesMeta(id='tiny-sigs', name='tiny', version='1.0', id_attr=id_attr, description='synthetic signatures')
    gs = os.path.join(dirpath, gs_name)
    if os.path.exists(gs):
        os.remove(gs)
    dump_signatures(gs, AnnotatedSignatures(sigs, np.asarray(ids) if ids and isinstance(ids[0], int) else ids, meta))
    return gdb, gs


def world_for_tlc(world):
    """the world as TLC sees it: sequences as byte lists, thresholds as float32 bit patterns (-1 = none)"""
    return dict(
        k=world['kspec'][0], pre=blist(world['kspec'][1].encode()),
        parent=[t['parent'] for t in world['taxa']],
        thr=[-1 if t['thr'] is None else f32_bits(t['thr']) for t in world['taxa']],
        report=[bool(t['report']) for t in world['taxa']],
        gt=[g['taxon'] for g in world['genomes']],
        refs=[[blist(c.encode()) for c in g['contigs']] for g in world['genomes']],
    )
