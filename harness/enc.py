"""Encodings between Python objects and the TLA+ values the specification talks about (DESIGN 4.1).

Only representation changes live here (bytes <-> int lists, base-4 digit expansion, IEEE bit fields,
rank abstraction); no expected value is ever computed in Python.
"""
import struct

import numpy as np


def blist(b):
    """bytes-like -> list of ints 0..255"""
    return list(bytes(b))


def digits4(idx, k):
    """non-negative int -> its k base-4 digits, most significant first (low 2k bits)"""
    idx = int(idx)
    return [(idx >> (2 * (k - 1 - i))) & 3 for i in range(k)]


def from_digits4(d):
    v = 0
    for x in d:
        v = v * 4 + x
    return v


def opt(v):
    return [] if v is None else [v]


def f32_fields(x):
    """A float that must be exactly representable in binary32 and lie in [0, 1] -> [z, e, m] record
    (value = m * 2^(e-23), 2^23 <= m < 2^24), or a dict with 'notf32' when it is not such a value."""
    xf = float(x)
    f = np.float32(xf)
    if not (float(f) == xf):
        return dict(z=False, e=0, m=0, bad='not-a-float32-value')
    bits = struct.unpack('<I', struct.pack('<f', xf))[0]
    sign = bits >> 31
    ex = (bits >> 23) & 0xFF
    frac = bits & 0x7FFFFF
    if sign and (ex or frac):
        return dict(z=False, e=0, m=0, bad='negative')
    if ex == 0 and frac == 0:
        return dict(z=True, e=0, m=0, bad='')
    if ex == 0:
        return dict(z=False, e=0, m=0, bad='subnormal')
    if ex == 255:
        return dict(z=False, e=0, m=0, bad='nan-or-inf')
    return dict(z=False, e=ex - 127, m=frac | 0x800000, bad='')


def f32_bits(x):
    return struct.unpack('<I', struct.pack('<f', float(x)))[0]


def ranks(*arrays):
    """Rank abstraction: replace every element by its rank in the sorted union of all values.
    Injective and order preserving, so set algebra and order are preserved exactly."""
    allv = sorted({int(v) for a in arrays for v in a})
    rk = {v: i for i, v in enumerate(allv)}
    return [[rk[int(v)] for v in a] for a in arrays]


def fix47(x):
    """A float in [0, 1] that is an integer multiple of 2^-47 -> two-limb fixed point {hi, lo} (base 2^24), exactly."""
    from fractions import Fraction
    try:
        n = Fraction(float(x)) * (1 << 47)
    except (ValueError, OverflowError):
        return dict(hi=0, lo=0, bad='nan-or-inf')
    if n.denominator != 1:
        return dict(hi=0, lo=0, bad='not-on-2^-47-grid')
    n = int(n)
    if not 0 <= n <= (1 << 47):
        return dict(hi=0, lo=0, bad='out-of-[0,1]')
    return dict(hi=n >> 24, lo=n & 0xFFFFFF, bad='')
