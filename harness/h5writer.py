"""Writer subprocess for C19/C12: runs the real dump_signatures with the h5py entry points wrapped (in THIS process only).

usage: python -m harness.h5writer '<json spec>'
spec: {out, n, size, container: array|list|annotated-array|annotated-list, compression: null|gzip|lzf, dtype, k, prefix,
       crash_at: int (-1 = never), trace: path or null}
Every storage-library call (File(...,'w'), attrs[...]=, create_dataset, dataset[...]=, flush, close) is numbered from 0.
With crash_at = N the process dies with os._exit(99) immediately BEFORE its N-th call: no interpreter or library
cleanup runs, so the file is left exactly as the library had it after N calls.
"""
import json
import os
import sys

import numpy as np


def payload(spec):
    from gambit.kmers import KmerSpec
    from gambit.sigs import SignatureArray, SignatureList, AnnotatedSignatures, SignaturesMeta
    rng = np.random.default_rng(spec.get('seed', 1))
    n, size = spec['n'], spec['size']
    dtype = np.dtype(spec.get('dtype', 'u8'))
    ks = KmerSpec(spec.get('k', 20), spec.get('prefix', 'ATG'))
    sigs = []
    for i in range(n):
        m = size if not spec.get('vary') else max(0, size - i * (size // max(1, n)))
        hi = min(4 ** ks.k, np.iinfo(dtype).max)
        vals = np.unique(rng.integers(0, hi, size=m, dtype=np.uint64)).astype(dtype)
        sigs.append(vals)
    cont = spec['container']
    base = SignatureArray(sigs, ks, dtype=dtype) if 'array' in cont else SignatureList(sigs, ks, dtype=dtype)
    if cont.startswith('annotated'):
        meta = SignaturesMeta(id='set-1', name='nm', version='1.0', id_attr='key', description='désc', extra=dict(a=[1, 2], b=None))
        base = AnnotatedSignatures(base, [f'g{i}' for i in range(n)], meta)
    return base


def install(spec, events):
    import h5py
    counter = {'n': 0}
    crash_at = spec.get('crash_at', -1)

    def tick(ev):
        if counter['n'] == spec.get('rival_at', -2) and not counter.get('rival'):
            # a second, complete write of ANOTHER collection to the same path by another process while this one holds the file open
            # (a job submitted twice); whether it is refused (file locking) or completes, this writer carries on
            import subprocess
            counter['rival'] = True
            rival = {k: v for k, v in spec.items() if k not in ('rival_at', 'trace', 'preexisting')}
            rival.update(seed=spec.get('seed', 1) + 500, crash_at=-1)
            subprocess.run([sys.executable, '-W', 'ignore', '-m', 'harness.h5writer', json.dumps(rival)], cwd=os.path.dirname(os.path.dirname(os.path.abspath(__file__))),
                           stdout=subprocess.DEVNULL, stderr=subprocess.DEVNULL, timeout=300)
        if counter['n'] == crash_at:
            if spec.get('kill') == 'sigterm':
                import signal, time
                os.kill(os.getpid(), signal.SIGTERM)      # default disposition: the process dies here
                time.sleep(30)
            os._exit(99)
        counter['n'] += 1
        events.append(ev)

    blank = dict(op='', name='', size=0, data=False, lo=0, hi=0, trunc=True)
    o_init = h5py.File.__init__

    def f_init(self, name, mode='r', *a, **k):
        if mode != 'r':
            tick(dict(blank, op='create', trunc=mode in ('w', 'x', 'w-')))
        return o_init(self, name, mode, *a, **k)
    h5py.File.__init__ = f_init

    o_attr = h5py.AttributeManager.__setitem__

    def a_set(self, name, value):
        tick(dict(blank, op='setattr', name=str(name)))
        return o_attr(self, name, value)
    h5py.AttributeManager.__setitem__ = a_set

    o_cd = h5py.Group.create_dataset

    def cd(self, name, shape=None, dtype=None, data=None, **kw):
        if data is not None:
            size = int(np.asarray(data).shape[0]) if np.asarray(data).ndim else 1
        else:
            size = int(shape if np.isscalar(shape) else shape[0])
        tick(dict(blank, op='create_dataset', name=str(name), size=size, data=data is not None))
        return o_cd(self, name, shape=shape, dtype=dtype, data=data, **kw)
    h5py.Group.create_dataset = cd

    o_ds = h5py.Dataset.__setitem__

    def ds_set(self, key, val):
        n = self.shape[0]
        if isinstance(key, slice):
            lo, hi, st = key.indices(n)
        else:
            k = int(key)
            lo, hi = (k + n if k < 0 else k), (k + n if k < 0 else k) + 1
        tick(dict(blank, op='write', name=self.name.rsplit('/', 1)[-1], lo=int(lo), hi=int(hi)))
        return o_ds(self, key, val)
    h5py.Dataset.__setitem__ = ds_set

    o_flush = h5py.File.flush

    def fl(self):
        tick(dict(blank, op='flush'))
        return o_flush(self)
    h5py.File.flush = fl

    o_close = h5py.File.close

    def cl(self):
        if self.id and self.id.valid and self.mode != 'r':
            tick(dict(blank, op='close'))
        return o_close(self)
    h5py.File.close = cl


def main():
    spec = json.loads(sys.argv[1])
    events = []
    if spec.get('mode') == 'cli':
        return main_cli(spec, events)
    sigs = payload(spec)
    if spec.get('preexisting'):
        # the destination already holds a complete, different signature file (regenerating a file in place)
        from gambit.sigs import dump_signatures as _dump
        _dump(spec['out'], payload(dict(spec, seed=spec.get('seed', 1) + 77, n=max(1, spec['n'] - 1))))
    install(spec, events)
    from gambit.sigs import dump_signatures
    kw = {}
    if spec.get('compression'):
        kw['compression'] = spec['compression']
    dump_signatures(spec['out'], sigs, **kw)
    if spec.get('trace'):
        with open(spec['trace'], 'w') as f:
            json.dump(events, f)
    return 0


def main_cli(spec, events):
    """the write is performed by the real `gambit signatures create` (in this process, so that the h5py wrappers see it):
    signatures are first computed with the default process pool, then written - as the command always does"""
    import random
    rng = random.Random(spec.get('seed', 1))
    import tempfile
    d = tempfile.mkdtemp(prefix='cli_in_', dir=os.path.dirname(spec['out']))
    os.chdir(d)                       # relative names: the ids written to the file do not depend on the directory
    files = []
    for i in range(spec['n']):
        p = f'in_{i}.fa'
        with open(p, 'w') as f:
            f.write('>c\n' + ''.join('ATGAC' + ''.join(rng.choice('ACGT') for _ in range(13)) for _ in range(spec['size'])) + '\n')
        files.append(p)
    extra = []
    if spec.get('with_meta'):
        # ids and metadata given on the command line (-i / -m)
        with open('ids.txt', 'w') as f:
            f.write(''.join(f'custom-{i}\n' for i in range(spec['n'])))
        with open('meta.json', 'w') as f:
            json.dump(dict(id='set/1', name='a set', version='1.0', id_attr='key', description='d', extra=dict(a=1)), f)
        extra = ['-i', 'ids.txt', '-m', 'meta.json']
    install(spec, events)
    from gambit.cli import cli
    try:
        cli.main(['signatures', 'create', '--no-progress', '-c', '2', '-o', spec['out']] + extra + files, standalone_mode=False)
    finally:
        import shutil
        os.chdir('/')
        shutil.rmtree(d, ignore_errors=True)
    if spec.get('trace'):
        with open(spec['trace'], 'w') as f:
            json.dump(events, f)
    return 0


if __name__ == '__main__':
    sys.exit(main())
