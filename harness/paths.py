"""Family `path-resolution`: which file an input path makes the command line read (spec/PathResolve.tla, PathTree.tla).

The harness materialises PathTree!Tree(target) as a real directory (private, five levels below the temporary directory so that no explored
path can leave it), hands a path - as a list-file entry relative to --ldir, or as a positional argument - to the function the command
line uses (gambit.cli.common.get_sequence_files), parses the first record of the sequence file it returns and reports WHICH node's contents
were read.  TLC (Judge_Paths) computes the node the operating system resolves the path to and compares.
"""
import atexit
import io
import itertools
import os
import shutil

from . import core, tlc

COMPS = ['a', 'b', 'c', 'x', 'l', '..', '.', '']
TARGETS = [['none'], ['a', 'b'], ['a'], ['c'], ['c', 'l'], ['a', '..', 'a', 'b']]
_ROOTS = {}


def _cleanup(path):
    shutil.rmtree(path, ignore_errors=True)


def tree_root(target, base=None):
    """the real directory standing for the root of Tree(target), built once per process (below `base`, which the caller removes)"""
    key = (os.getpid(), tuple(target))
    if key not in _ROOTS:
        if base:
            top = os.path.join(base, f'p{os.getpid()}_{len(_ROOTS)}')
            os.makedirs(top)
        else:
            top = tlc.mktmp('paths-')
            atexit.register(_cleanup, top)
        root = os.path.join(top, 'r0', 'r1', 'r2', 'r3', 'root')
        os.makedirs(os.path.join(root, 'a', 'b'))
        os.makedirs(os.path.join(root, 'c'))

        def fasta(rel, node):
            with open(os.path.join(root, rel), 'w') as f:
                f.write(f'>n{node} file of node {node}\nATGAC{"ACGT"[node % 4] * 12}\n')
        fasta('a/x', 4)
        fasta('x', 5)
        fasta('c/x', 7)
        if target == ['none']:
            fasta('c/l', 8)
        else:
            os.symlink(os.path.join(root, *target), os.path.join(root, 'c', 'l'))
        _ROOTS[key] = root
    return _ROOTS[key]


class PathResolution(core.Family):
    name = 'path-resolution'
    judge = 'Judge_Paths'
    exhaustive = True
    procs = 8

    top = None

    def cleanup(self):
        if self.top:
            shutil.rmtree(self.top, ignore_errors=True)

    def inputs(self, ctx):
        if self.top is None:
            self.top = tlc.mktmp('paths-')          # worker processes build their trees below it; removed by cleanup()
        full = 4 if ctx.tier == 'thorough' else 3
        self.rule = (f'the tree of spec/PathTree.tla with the link /c/l absent or pointing to a/b, a, c, itself, a/../a/b (6 file systems) x every path of up to {full} components over '
                     '{a, b, c, x, l, "..", ".", ""}' + ('' if full == 4 else ' plus every 4-component path holding both l and ".."') +
                     ' x channel {list-file entry relative to --ldir (directory = first 0..2 components), positional argument}: the node whose contents are read, the label')
        for n in range(1, 5):
            for comps in itertools.product(COMPS, repeat=n):
                if comps[0] == '' or (n > full and not ('l' in comps and '..' in comps)):
                    continue
                for ti, target in enumerate(TARGETS):
                    split = (len(comps) + ti) % 3
                    if split < len(comps) and comps[split] != '':
                        yield dict(target=target, dir=list(comps[:split]), entry=list(comps[split:]), channel='list')
                    yield dict(target=target, dir=[], entry=list(comps), channel='positional')

    def execute(self, inp):
        from gambit.cli.common import get_sequence_files
        root = tree_root(inp['target'], self.top)
        text = '/'.join(inp['entry'])
        r = dict(target=inp['target'], dir=inp['dir'], entry=inp['entry'], channel=inp['channel'], got=0, label=[], err='')
        try:
            if inp['channel'] == 'list':
                ids, files = get_sequence_files(None, io.StringIO(text + '\n'), os.path.join(root, *inp['dir']) if inp['dir'] else root)
            else:
                ids, files = get_sequence_files([os.path.join(root, text)], None, None)
            if not files or len(files) != 1:
                r['err'] = 'no-entry'
                return r
            r['label'] = [ord(c) for c in ids[0]]
            rec = next(iter(files[0].parse()))
            r['got'] = int(rec.id[1:])
        except Exception as e:
            r['err'] = type(e).__name__
        return r

    def nontrivial(self, inp, rec):
        return core.short_hash(inp) if rec['got'] and ('..' in inp['entry'] or 'l' in inp['entry'] + inp['dir']) else None

    def corrupt(self, rec):
        if not rec['got']:
            return None          # nothing was read: the path may leave the tree (out of the judge's scope)
        rec['got'] = 5 if rec['got'] != 5 else 4
        return rec

    def describe(self, inp, rec):
        return f"link->{'/'.join(inp['target'])} dir={'/'.join(inp['dir'])!r} entry={'/'.join(inp['entry'])!r} channel={inp['channel']} read node {rec['got']} {rec['err']}"
