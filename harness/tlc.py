"""Thin, careful wrapper around TLC (tla2tools 1.8) used in its three roles.

* model checker   : run_mc(module, cfg)                       -> TLCResult (states, transitions, coverage, violation)
* generator       : run_mc(..., dump=...) / generate(...)      -> scenario sets serialised by the spec itself
* judge           : judge(module, records, ...)                -> per-record verdicts computed by TLC

TLC is always started as `java -Xss512m ... tlc2.TLC` (the `tlc` wrapper ignores -Xss, and recursive
operators overflow the default stack).  Every run gets its own metadir under a private temporary
directory outside /verif and /repo, removed afterwards.
"""
import json
import os
import re
import shutil
import subprocess
import tempfile
import time
from concurrent.futures import ThreadPoolExecutor
from dataclasses import dataclass, field

VERIF = os.path.dirname(os.path.dirname(os.path.abspath(__file__)))
SPEC_DIR = os.path.join(VERIF, 'spec')
JAR = '/opt/veriftools/tla/tla2tools.jar'
DEPS = '/opt/veriftools/tla/CommunityModules-deps.jar'
TMP_ROOT = os.environ.get('VERIF_TMP', '/var/tmp')


class MachineryError(Exception):
    """TLC crashed / produced unparseable output.  Never reported as a property violation."""


def mktmp(prefix='verif-'):
    os.makedirs(TMP_ROOT, exist_ok=True)
    return tempfile.mkdtemp(prefix=prefix, dir=TMP_ROOT)


@dataclass
class TLCResult:
    rc: int
    out: str
    generated: int = 0          # "states generated" (= transitions explored + initial states)
    distinct: int = 0           # distinct states
    depth: int = 0
    violated: str = ''          # name of violated invariant / property / assumption ('' if none)
    printed: list = field(default_factory=list)   # decoded ToJson(...) lines printed with PrintT
    coverage: dict = field(default_factory=dict)  # action name -> (distinct, total) when -coverage was on
    wall_s: float = 0.0

    @property
    def ok(self):
        return self.violated == '' and self.rc == 0


_RE_STATES = re.compile(r'^(\d+) states generated, (\d+) distinct states found', re.M)
_RE_DEPTH = re.compile(r'The depth of the complete state graph search is (\d+)')
_RE_INV = re.compile(r'Error: Invariant (\S+) is violated')
_RE_ACTPROP = re.compile(r'Error: Action property (\S+) is violated')
_RE_TEMPORAL = re.compile(r'Error: Temporal properties were violated')
_RE_ASSUME = re.compile(r'Error: Assumption line (\d+), col (\d+) to line (\d+), col (\d+) of module (\S+) is false')
_RE_POST = re.compile(r'Error: Postcondition|The postcondition')
_RE_DEADLOCK = re.compile(r'Error: Deadlock reached')
_RE_COV = re.compile(r'^<(\w+) line \d+, col \d+ to line \d+, col \d+ of module (\w+)>: (\d+):(\d+)', re.M)


def _parse(out, rc, wall):
    res = TLCResult(rc=rc, out=out, wall_s=wall)
    ms = _RE_STATES.findall(out)
    if ms:
        res.generated, res.distinct = int(ms[-1][0]), int(ms[-1][1])
    m = _RE_DEPTH.search(out)
    if m:
        res.depth = int(m.group(1))
    for rx, fmt in ((_RE_INV, 'invariant:{0}'), (_RE_ACTPROP, 'actionprop:{0}')):
        m = rx.search(out)
        if m:
            res.violated = fmt.format(m.group(1))
    if not res.violated:
        if _RE_TEMPORAL.search(out):
            res.violated = 'temporal'
        elif _RE_ASSUME.search(out):
            m = _RE_ASSUME.search(out)
            res.violated = f'assumption:{m.group(5)}:{m.group(1)}'
        elif _RE_POST.search(out):
            res.violated = 'postcondition'
        elif _RE_DEADLOCK.search(out):
            res.violated = 'deadlock'
    for line in out.splitlines():
        s = line.strip()
        if s.startswith('"') and s.endswith('"') and len(s) >= 2:
            try:
                inner = json.loads(s)
                res.printed.append(json.loads(inner))
            except Exception:
                pass
    for name, mod, d, t in _RE_COV.findall(out):
        key = name
        prev = res.coverage.get(key, (0, 0))
        res.coverage[key] = (prev[0] + int(d), prev[1] + int(t))
    return res


def cfg_with(cfg, overrides, tmpdir):
    """Copy spec/<cfg> to tmpdir with `Name = value` / `Name <- value` constant lines replaced."""
    text = open(os.path.join(SPEC_DIR, cfg)).read()
    for name, val in overrides.items():
        text, n = re.subn(rf'^(\s*{re.escape(name)}\s*)(=|<-)\s*\S.*$', lambda m: f'{m.group(1)}{m.group(2)} {val}', text, flags=re.M)
        if n != 1:
            raise MachineryError(f'cfg override {name} matched {n} lines in {cfg}')
    path = os.path.join(tmpdir, 'ovr_' + os.path.basename(cfg))
    with open(path, 'w') as f:
        f.write(text)
    return path


def run_tlc(module, cfg=None, *, env=None, workers=1, coverage=False, timeout=3600, extra=(),
            xmx='3g', deadlock=False, cwd=None, depth_first=False, overrides=None):
    """Run TLC on spec/<module>.tla with spec/<cfg>.  Returns TLCResult.

    Raises MachineryError when TLC did not finish normally for a reason other than a property /
    assumption violation (parse error, evaluation error, OOM, timeout).
    """
    cwd = cwd or SPEC_DIR
    cfg = cfg or (module + '.cfg')
    meta = mktmp('tlcmeta-')
    if overrides:
        cfg = cfg_with(cfg, overrides, meta)
    cmd = ['java', f'-Xmx{xmx}', '-Xss512m', '-XX:+UseParallelGC']
    if depth_first:
        cmd.append('-Dtlc2.tool.queue.IStateQueue=StateDeque')
    cmd += ['-cp', f'{JAR}:{DEPS}', 'tlc2.TLC', '-metadir', meta, '-noGenerateSpecTE',
            '-workers', str(workers), '-config', cfg]
    if coverage:
        cmd += ['-coverage', '1']
    if not deadlock:
        cmd += ['-deadlock']   # -deadlock = do NOT check for deadlock
    cmd += list(extra)
    cmd.append(module)
    e = dict(os.environ)
    e.pop('JAVA_TOOL_OPTIONS', None)
    if env:
        e.update({k: str(v) for k, v in env.items()})
    t0 = time.time()
    try:
        p = subprocess.run(cmd, cwd=cwd, env=e, stdout=subprocess.PIPE, stderr=subprocess.STDOUT,
                           timeout=timeout, text=True, errors='replace')
    except subprocess.TimeoutExpired as ex:
        raise MachineryError(f'TLC timeout after {timeout}s on {module}/{cfg}') from ex
    finally:
        shutil.rmtree(meta, ignore_errors=True)
    wall = time.time() - t0
    res = _parse(p.stdout, p.returncode, wall)
    if p.returncode != 0 and not res.violated:
        raise MachineryError(f'TLC failed on {module}/{cfg} (rc={p.returncode}):\n' + p.stdout[-4000:])
    if 'Model checking completed' not in p.stdout and not res.violated \
            and 'Finished in' not in p.stdout and '-simulate' not in ' '.join(extra):
        raise MachineryError(f'TLC did not complete on {module}/{cfg}:\n' + p.stdout[-4000:])
    return res


def run_many(jobs, max_parallel=8):
    """jobs: list of (callable, args, kwargs). Run concurrently (each is a JVM), keep order."""
    with ThreadPoolExecutor(max_workers=max_parallel) as ex:
        futs = [ex.submit(f, *a, **k) for f, a, k in jobs]
        return [f.result() for f in futs]


def sany(module, cwd=None):
    cmd = ['java', '-cp', f'{JAR}:{DEPS}', 'tla2sany.SANY', module + '.tla']
    p = subprocess.run(cmd, cwd=cwd or SPEC_DIR, stdout=subprocess.PIPE, stderr=subprocess.STDOUT, text=True)
    ok = p.returncode == 0 and 'Semantic errors' not in p.stdout and 'Parse Error' not in p.stdout \
        and 'Fatal errors' not in p.stdout and '*** Errors' not in p.stdout and 'Could not parse' not in p.stdout
    return ok, p.stdout


def _no_null(x):
    """TLC's JSON reader rejects null: ship it as the string "null"."""
    if x is None:
        return 'null'
    if isinstance(x, dict):
        return {k: _no_null(v) for k, v in x.items()}
    if isinstance(x, (list, tuple)):
        return [_no_null(v) for v in x]
    return x


def write_ndjson(path, records):
    with open(path, 'w') as f:
        for r in records:
            f.write(json.dumps(_no_null(r), separators=(',', ':')))
            f.write('\n')


def judge(module, records, *, cfg=None, shards=None, env=None, timeout=3600, max_parallel=16, xmx='2g'):
    """Have TLC judge `records` (list of JSON-able dicts) with judge module `module`.

    The judge module reads IOEnv.REC_FILE with ndJsonDeserialize and prints exactly one ToJson line
    [n |-> <number judged>, bad |-> <sequence of [i |-> index, why |-> failing clause(s)]>].
    Records are split into shards, one JVM each.  Returns (n_judged, bad) where bad is a list of
    (global index, why).
    """
    n = len(records)
    if n == 0:
        return 0, []
    if shards is None:
        approx = sum(len(json.dumps(r, separators=(',', ':'))) for r in records[::max(1, n // 200)]) * max(1, n // 200)
        shards = max(1, min(max_parallel, n // 1500 + 1, n) if approx < 400_000 else min(max_parallel, n, approx // 150_000 + 1))
    shards = max(1, min(shards, n))
    tmp = mktmp('judge-')
    try:
        bounds = [(n * s) // shards for s in range(shards + 1)]
        jobs = []
        for s in range(shards):
            lo, hi = bounds[s], bounds[s + 1]
            if lo == hi:
                continue
            path = os.path.join(tmp, f'rec{s}.ndjson')
            write_ndjson(path, records[lo:hi])
            e = dict(env or {})
            e['REC_FILE'] = path
            jobs.append((lo, hi, (run_tlc, (module,), dict(cfg=cfg, env=e, timeout=timeout, xmx=xmx))))
        results = run_many([j[2] for j in jobs], max_parallel=max_parallel)
        judged = 0
        bad = []
        for (lo, hi, _), res in zip(jobs, results):
            verdicts = [p for p in res.printed if isinstance(p, dict) and 'n' in p and 'bad' in p]
            if len(verdicts) != 1:
                raise MachineryError(f'judge {module}: expected one verdict line, got {len(verdicts)}:\n{res.out[-3000:]}')
            v = verdicts[0]
            if v['n'] != hi - lo:
                raise MachineryError(f'judge {module}: judged {v["n"]} of {hi - lo} records')
            judged += v['n']
            for b in v['bad']:
                bad.append((lo + b['i'] - 1, b.get('why', '')))
        return judged, bad
    finally:
        shutil.rmtree(tmp, ignore_errors=True)


def generate(module, *, cfg=None, env=None, timeout=3600, xmx='3g', overrides=None):
    """Run a generator module: it must ndJsonSerialize to IOEnv.OUT_FILE.  Returns list of records."""
    tmp = mktmp('gen-')
    try:
        out = os.path.join(tmp, 'out.ndjson')
        e = dict(env or {})
        e['OUT_FILE'] = out
        res = run_tlc(module, cfg=cfg, env=e, timeout=timeout, xmx=xmx, overrides=overrides)
        if res.violated:
            raise MachineryError(f'generator {module} failed: {res.violated}\n{res.out[-3000:]}')
        if not os.path.exists(out):
            raise MachineryError(f'generator {module} wrote nothing\n{res.out[-3000:]}')
        recs = []
        with open(out) as f:
            for line in f:
                line = line.strip()
                if line:
                    recs.append(json.loads(line))
        return recs, res
    finally:
        shutil.rmtree(tmp, ignore_errors=True)
