"""Regenerates MANIFEST.json from the table below (single source of truth for the interface)."""
import json
import os

VERIF = os.path.dirname(os.path.dirname(os.path.abspath(__file__)))

from .manifest_reg import CHECKS, NOT_APPLICABLE
from . import manifest_table  # noqa  (fills CHECKS / NOT_APPLICABLE)


def main():
    props = [json.loads(l) for l in open(os.path.join(VERIF, 'properties.jsonl'))]
    ids = [p['id'] for p in props]
    checks = []
    for pid in ids:
        if pid not in CHECKS:
            continue
        c = CHECKS[pid]
        checks.append(dict(
            property_id=pid,
            quick_cmd=f'./check {pid} --tier quick',
            thorough_cmd=f'./check {pid} --tier thorough',
            evidence_file=f'/verif/evidence/{pid}.json',
            replay_cmd_template=f'./check {pid} --replay {{path}}',
            engine='tlc',
            level_claimed=dict(category=c['category'], text=c['text'], design_ref=c['design_ref']),
            level_note=c['note'],
            technique=c['technique'],
        ))
    na = [dict(property_id=pid, reason=NOT_APPLICABLE.get(pid, 'check not built yet in this round (planned, see DESIGN.md App. C)'))
          for pid in ids if pid not in CHECKS]
    man = dict(
        version=1,
        setup_cmd='./setup.sh',
        hooks=dict(
            guard='GAMBIT_VERIF',
            enable='no instrumentation hooks are needed: every linearisation point is observable through public extension '
                   'points (executors, progress factories, proxy containers, h5py wrapped from the harness process)',
            baseline_off_cmd='cd /repo && /venv/bin/python -m pytest -ra -q -p no:cacheprovider --timeout=900 --continue-on-collection-errors',
            source_commits=[],
            add_only=True,
        ),
        engines=[
            dict(name='tlc', path='/verif/harness/tlc.py', serves_properties=[c['property_id'] for c in checks],
                 kind_free_text='TLC 1.8 (tla2tools) as exhaustive model checker of /verif/spec/*.tla, as scenario generator '
                                '(spec -> code replay) and as judge of call records and traces recorded from the real code'),
        ],
        checks=checks,
        not_applicable=na,
        notes='Explicit TLA+ specification in /verif/spec; ./check <ID> --tier quick|thorough; exit 0 held, 1 VIOLATION, 2 machinery failure. '
              'Known findings / fixed defects: /verif/known_findings.txt. See DESIGN.md.',
    )
    with open(os.path.join(VERIF, 'MANIFEST.json'), 'w') as f:
        json.dump(man, f, indent=1)
    print('MANIFEST.json:', len(checks), 'checks,', len(na), 'not applicable')


if __name__ == '__main__':
    main()
