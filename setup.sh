#!/bin/sh
# Offline setup: verify the tool chain, SANY-parse every specification module, rebuild stale native modules.
cd "$(dirname "$0")" || exit 2
set -e
java -version 2>&1 | head -1
test -f /opt/veriftools/tla/tla2tools.jar
/venv/bin/python -c "import gambit, numpy, h5py, hypothesis" 2>/dev/null || /venv/bin/python -c "import gambit, numpy, h5py"
/venv/bin/python -m harness.rebuild
fail=0
for f in spec/*.tla; do
  m=$(basename "$f" .tla)
  if ! (cd spec && java -cp /opt/veriftools/tla/tla2tools.jar:/opt/veriftools/tla/CommunityModules-deps.jar tla2sany.SANY "$m.tla" > /tmp/sany.$$ 2>&1) || grep -q -E "Semantic errors|Parse Error|Fatal errors|\*\*\* Errors|Could not parse" /tmp/sany.$$; then
    echo "SANY FAILED: $m"; tail -20 /tmp/sany.$$; fail=1
  fi
done
rm -f /tmp/sany.$$
[ $fail -eq 0 ] && echo "setup ok"
exit $fail
