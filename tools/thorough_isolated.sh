#!/bin/sh
# usage (inside `vp run --with-repo -- tools/thorough_isolated.sh C01 C02 ...`): runs thorough tiers against the snapshot of /repo's HEAD
R=${VP_RUN_REPO:?needs vp run --with-repo}
cp /repo/src/gambit/_cython/*.so /repo/src/gambit/_cython/*.c "$R/src/gambit/_cython/"
rsync -a --ignore-existing /repo/tests/data/ "$R/tests/data/"
export GAMBIT_REPO="$R"
for id in "$@"; do
  /usr/bin/time -f "$id wall=%es" ./check "$id" --tier thorough 2>&1 | tail -4 | cut -c1-300
  echo "== $id rc=$?"
done
