#!/usr/bin/env python3
"""Print a markdown table of what each check's quick tier currently runs, generated from the evidence files
(model-checker runs with state counts, negative controls, conformance families with record counts)."""
import glob
import json
import os

rows = []
for f in sorted(glob.glob(os.path.join(os.path.dirname(__file__), '..', 'evidence', 'C*.json'))):
    e = json.load(open(f))
    c = e['coverage']
    def cfgname(m):
        cfg = (m.get('cfg') or '').split(' ')[0].replace('.cfg', '')
        ovr = (m.get('cfg') or '').partition(' ')[2]
        return (cfg if cfg and cfg != m.get('module') else m.get('module')) + (' ' + ovr if ovr else '')
    mcs = '; '.join(f"{cfgname(m)} ({m.get('states', 0)} states)" for m in c.get('model_runs', []))
    neg = '; '.join(f"{cfgname(m)} -> {m.get('violated', '').split(':')[-1]}" for m in c.get('negative_controls', []))
    fams = '; '.join(f"{x['name']} ({x.get('records', 0)})" for x in c.get('families', []))
    rows.append((e['property_id'], e['tier'], round(e.get('wall_s', 0)), mcs, neg, fams))
print('| check | wall (s) | TLC model runs | negative controls (must be violated) | conformance families (records judged / replayed) |')
print('|---|---|---|---|---|')
for pid, tier, wall, mcs, neg, fams in rows:
    print(f'| {pid} | {wall} | {mcs} | {neg} | {fams} |')
