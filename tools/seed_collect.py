#!/usr/bin/env python3
"""Confirm a seeded change produced by a sub-agent in /tmp/wt/<ID> and store it under /verif/seeded/<name>/.

Confirms: only src/gambit/*.py changed; the 542 stable tests pass with the change; the demonstration fails with the
change and passes without it.  usage: seed_collect.py <worktree-id> <name> <property-id>
"""
import json, os, shutil, subprocess, sys, glob, xml.etree.ElementTree as ET

wid, name, pid = sys.argv[1:4]
wt = f'/tmp/wt/{wid}'
out = f'/verif/seeded/{name}'
env = dict(os.environ, PYTHONPATH=f'{wt}/src', PYTHONHASHSEED='0')
PY = '/venv/bin/python'


def sh(cmd, **kw):
    return subprocess.run(cmd, shell=True, cwd=wt, env=env, stdout=subprocess.PIPE, stderr=subprocess.STDOUT, text=True, **kw)


diff = sh('git diff -- .').stdout
files = sh('git diff --name-only -- .').stdout.split()
assert files and all(f.startswith('src/gambit/') and f.endswith('.py') for f in files), files
patch = f'/tmp/wt/{wid}.collect.patch'
open(patch, 'w').write(diff)
demos = glob.glob(f'{wt}/demo_*.py')
assert len(demos) == 1, demos
demo = demos[0]
res = {}
r = sh(f'{PY} {demo}', timeout=1200)
res['demo_with_change_rc'] = r.returncode
res['demo_with_change_tail'] = r.stdout[-400:]
junit = f'/tmp/wt/{wid}.junit.xml'
r = sh(f'{PY} -m pytest -q -p no:cacheprovider --timeout=900 --continue-on-collection-errors --junitxml={junit} tests', timeout=3000)
stable = set(open('/tmp/wt/STABLE_PASS.txt').read().split('\n')) - {''}
passed = set()
for tc in ET.parse(junit).getroot().iter('testcase'):
    bad = any(c.tag in ('failure', 'error', 'skipped') for c in tc)
    cls = tc.get('classname'); nm = tc.get('name')
    tid = f'{cls}::{nm}'
    if not bad:
        passed.add(tid)
missing = sorted(stable - passed)
res['stable_tests'] = len(stable)
res['stable_failing_with_change'] = missing[:10]
sh(f'git apply -R {patch}')
try:
    r = sh(f'{PY} {demo}', timeout=1200)
    res['demo_without_change_rc'] = r.returncode
    res['demo_without_change_tail'] = r.stdout[-300:]
finally:
    sh(f'git apply {patch}')
ok = res['demo_with_change_rc'] != 0 and res['demo_without_change_rc'] == 0 and not missing
res['confirmed'] = ok
print(json.dumps(res, indent=1))
if ok:
    os.makedirs(out, exist_ok=True)
    shutil.copy(patch, f'{out}/patch.diff')
    shutil.copy(demo, f'{out}/{os.path.basename(demo)}')
    if os.path.exists(f'{wt}/MUTATION.md'):
        shutil.copy(f'{wt}/MUTATION.md', f'{out}/MUTATION.md')
    meta = dict(property=pid, files=files, needs=open(f'{wt}/MUTATION.md').read() if os.path.exists(f'{wt}/MUTATION.md') else '',
                confirmation=dict(
                    ran=[f'PYTHONPATH=<wt>/src {PY} -m pytest ... tests (junit compared with the 542 stable tests)',
                         f'{PY} {os.path.basename(demo)} with and without the change'],
                    stable_tests_pass_with_change=True, demo_fails_with_change=True, demo_passes_without_change=True),
                detected_by=None)
    json.dump(meta, open(f'{out}/meta.json', 'w'), indent=1)
    print('stored', out)
sys.exit(0 if ok else 1)
