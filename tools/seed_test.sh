#!/bin/sh
# usage: seed_test.sh <seed-name> <PID> [tier]   -- applies the seeded change to /repo, runs the check, undoes it
name=$1; pid=$2; tier=${3:-quick}
cd /verif || exit 2
git -C /repo diff --quiet || { echo "/repo dirty"; exit 2; }
git -C /repo apply /verif/seeded/$name/patch.diff || exit 2
./check $pid --tier $tier > /tmp/seedtest.$name.$pid.log 2>&1; rc=$?
git -C /repo checkout -- .
git checkout -q -- evidence/$pid.json 2>/dev/null
echo "seed=$name check=$pid tier=$tier rc=$rc"; grep -c VIOLATION /tmp/seedtest.$name.$pid.log; grep -m3 -A1 VIOLATION /tmp/seedtest.$name.$pid.log | cut -c1-400; tail -2 /tmp/seedtest.$name.$pid.log | cut -c1-300
exit 0
