#!/bin/sh
# usage: tools/run_all.sh [quick|thorough] [IDs...]   -- runs the registered checks one after another and summarises
cd "$(dirname "$0")/.." || exit 2
tier=${1:-quick}; shift 2>/dev/null
ids=${*:-$(python3 -c "import json;print(' '.join(c['property_id'] for c in json.load(open('MANIFEST.json'))['checks']))")}
fail=0
for id in $ids; do
  start=$(date +%s)
  ./check "$id" --tier "$tier" > "/tmp/runall.$id.log" 2>&1; rc=$?
  end=$(date +%s)
  echo "$id rc=$rc $((end-start))s $(tail -1 /tmp/runall.$id.log | cut -c1-160)"
  [ $rc -ne 0 ] && fail=1
done
exit $fail
