------------------------------ MODULE CalcHistory ------------------------------
(***************************************************************************)
(* C13 / C06 across calls.  A long-lived executor (or the caller's own     *)
(* thread) serves several calc_file_signatures calls one after another.    *)
(* A worker processes one file at a time with an accumulator; a file may   *)
(* fail part-way through, after some of its k-mers were accumulated.       *)
(*   FreshAccumulator = TRUE  : a new accumulator per file (the code)      *)
(*   FreshAccumulator = FALSE : a per-worker accumulator that is cleared   *)
(*                              only after a successful file (negative    *)
(*                              control: what a failed file left behind   *)
(*                              leaks into the next file of that worker)  *)
(* A signature is the set of file tokens whose k-mers it contains; it must *)
(* be exactly {its own file}.                                              *)
(***************************************************************************)
EXTENDS Base

CONSTANTS MaxCalls, MaxFiles, Workers, FreshAccumulator

VARIABLES call,        \* number of the current call (0 = none yet)
          files,       \* files of the current call: sequence of [id, bad]
          todo,        \* positions not yet processed in the current call
          acc,         \* acc[w] : tokens sitting in worker w's accumulator between files
          sigs,        \* position -> signature (set of tokens) for processed good files
          failed,      \* some file of the current call failed
          returned     \* signatures returned by completed, successful calls: set of <<file id, signature>>
vars == <<call, files, todo, acc, sigs, failed, returned>>

FileSets == UNION { [1..n -> [id : 1..MaxFiles, bad : BOOLEAN]] : n \in 1..MaxFiles }

Init == /\ call = 0 /\ files = <<>> /\ todo = {} /\ acc = [w \in Workers |-> {}]
        /\ sigs = <<>> /\ failed = FALSE /\ returned = {}

\* a new call may start when the previous one is over (all its files processed)
NewCall ==
  /\ call < MaxCalls /\ todo = {}
  /\ \E fs \in FileSets :
       /\ files' = fs /\ todo' = DOMAIN fs
       /\ sigs' = [p \in DOMAIN fs |-> {}]
  /\ call' = call + 1 /\ failed' = FALSE
  \* the previous call returns its signatures iff none of its files failed
  /\ returned' = IF call > 0 /\ ~failed THEN returned \cup { <<files[p].id, sigs[p]>> : p \in DOMAIN files } ELSE returned
  /\ UNCHANGED acc

\* worker w processes the file at position p completely (good file) or until it fails (bad file)
Process(w, p) ==
  /\ p \in todo
  /\ todo' = todo \ {p}
  /\ LET start == IF FreshAccumulator THEN {} ELSE acc[w] IN
       IF files[p].bad
       THEN /\ failed' = TRUE
            /\ acc' = [acc EXCEPT ![w] = IF FreshAccumulator THEN {} ELSE start \cup {files[p].id}]    \* left behind
            /\ UNCHANGED sigs
       ELSE /\ sigs' = [sigs EXCEPT ![p] = start \cup {files[p].id}]
            /\ acc' = [acc EXCEPT ![w] = {}]                                                          \* cleared after success
            /\ UNCHANGED failed
  /\ UNCHANGED <<call, files, returned>>

ProcessAny == \E w \in Workers, p \in todo : Process(w, p)
Next == NewCall \/ ProcessAny
Spec == Init /\ [][Next]_vars

\* every signature ever returned contains exactly the k-mers of its own file
OwnSignature == \A r \in returned : r[2] = {r[1]}
\* nothing is carried from one file to the next
NoResidue == FreshAccumulator => \A w \in Workers : acc[w] = {}
=============================================================================
