---------------------------- MODULE Nucleotide ----------------------------
(***************************************************************************)
(* Nucleotide bytes, reverse complement and the base-4 k-mer code.         *)
(* Sequences are sequences of bytes 0..255.  A k-mer index is the tuple of *)
(* its k base-4 digits, first nucleotide first (most significant), with    *)
(* A=0 < C=1 < G=2 < T=3.  Written from the property statements (C07,C01). *)
(***************************************************************************)
EXTENDS Base

Byte == 0..255
cA == 65  cC == 67  cG == 71  cT == 84
ca == 97  cc == 99  cg == 103 ct == 116
cN == 78

\* ASCII case folding of letters (what "ignoring letter case" means for bytes)
Up(b) == IF b \in 97..122 THEN b - 32 ELSE b
UpSeq(s) == [i \in 1..Len(s) |-> Up(s[i])]

IsNuc(b) == Up(b) \in {cA, cC, cG, cT}
ValidSeq(s) == \A i \in 1..Len(s) : IsNuc(s[i])

\* base-4 digit of a nucleotide byte (either case)
Code(b) == CASE Up(b) = cA -> 0 [] Up(b) = cC -> 1 [] Up(b) = cG -> 2 [] Up(b) = cT -> 3
NucOf(d) == CASE d = 0 -> cA [] d = 1 -> cC [] d = 2 -> cG [] d = 3 -> cT

\* complement: swaps A/T and C/G preserving case, every other byte unchanged
Comp(b) == CASE b = cA -> cT [] b = cT -> cA [] b = cC -> cG [] b = cG -> cC
             [] b = ca -> ct [] b = ct -> ca [] b = cc -> cg [] b = cg -> cc
             [] OTHER -> b
RevComp(s) == [i \in 1..Len(s) |-> Comp(s[Len(s) + 1 - i])]

\* k-mer -> digits, digits -> (upper-case) k-mer
Enc(kmer) == [i \in 1..Len(kmer) |-> Code(kmer[i])]
Dec(digits) == [i \in 1..Len(digits) |-> NucOf(digits[i])]
EncRC(kmer) == Enc(RevComp(kmer))

MaxK == 32
\* smallest unsigned integer width (bytes) holding 4^k - 1
IndexWidth(k) == IF k <= 4 THEN 1 ELSE IF k <= 8 THEN 2 ELSE IF k <= 16 THEN 4 ELSE 8
=============================================================================
