----------------------------- MODULE Judge_C07 -----------------------------
(* Judges records of kmer_to_index / kmer_to_index_rc / index_to_kmer / revcomp calls (property C07). *)
EXTENDS Nucleotide, Judge

Acceptable(kmer) == Len(kmer) <= MaxK /\ ValidSeq(kmer)

ClK2I(r, E(_)) ==
  << <<"rejects-invalid-with-ValueError", ~Acceptable(r.kmer) => (~r.ok /\ r.err = "ValueError")>>,
     <<"accepts-valid", Acceptable(r.kmer) => r.ok>>,
     <<"index-in-range", (Acceptable(r.kmer) /\ r.ok) => r.inrange>>,
     <<"digits", (Acceptable(r.kmer) /\ r.ok) => r.digits = E(r.kmer)>>,
     <<"positional-value", (Acceptable(r.kmer) /\ r.ok /\ Len(r.kmer) <= 15) => r.val = PosVal(E(r.kmer), 4)>> >>

Clauses(r) ==
  CASE r.op = "k2i"   -> ClK2I(r, Enc)
    [] r.op = "k2irc" -> ClK2I(r, EncRC)
    [] r.op = "i2k"   -> << <<"ok", r.ok>>,
                            <<"kmer", r.ok => r.kmer = Dec(r.digits)>>,
                            <<"inverse", r.ok => Enc(r.kmer) = r.digits>> >>
    [] r.op = "revcomp" -> << <<"ok", r.ok>>,
                              <<"revcomp", r.ok => r.out = RevComp(r.seq)>>,
                              <<"length", r.ok => Len(r.out) = Len(r.seq)>> >>
    [] r.op = "involution" -> << <<"ok", r.ok>>, <<"involution", r.ok => r.out2 = r.seq>>,
                                 <<"revcomp", r.ok => r.out = RevComp(r.seq)>> >>

ASSUME PrintT(ToJson(Verdict(Recs, Clauses)))
=============================================================================
