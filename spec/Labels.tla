------------------------------- MODULE Labels -------------------------------
(***************************************************************************)
(* Labels the command line derives from input file paths (C08, C16, C17):  *)
(* the file name without directory, with one gzip extension and then one   *)
(* FASTA extension removed.  Strings are sequences of code points.         *)
(***************************************************************************)
EXTENDS Base

Slash == 47
GzExts == << <<46, 103, 122>> >>                                                    \* ".gz"
FastaExts == << <<46,102,97,115,116,97>>, <<46,102,110,97>>, <<46,102,102,110>>,    \* .fasta .fna .ffn
                <<46,102,97,97>>, <<46,102,114,110>>, <<46,102,97>> >>               \* .faa .frn .fa

EndsWith(s, suf) == Len(s) >= Len(suf) /\ SubSeq(s, Len(s) - Len(suf) + 1, Len(s)) = suf

\* remove the first extension of the list that the name ends with (at most one)
StripOne(s, exts) ==
  LET hits == { i \in DOMAIN exts : EndsWith(s, exts[i]) }
  IN IF hits = {} THEN s
     ELSE LET i == CHOOSE j \in hits : \A h \in hits : j <= h IN SubSeq(s, 1, Len(s) - Len(exts[i]))

BaseName(path) ==
  LET cuts == { i \in DOMAIN path : path[i] = Slash }
  IN IF cuts = {} THEN path ELSE SubSeq(path, (CHOOSE i \in cuts : \A j \in cuts : j <= i) + 1, Len(path))

Label(path) == StripOne(StripOne(BaseName(path), GzExts), FastaExts)
=============================================================================
