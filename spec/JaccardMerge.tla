---------------------------- MODULE JaccardMerge ----------------------------
(***************************************************************************)
(* The two-pointer merge of c_jaccarddist (gambit/_cython/metric.pyx) as a *)
(* state machine: one action per loop iteration, then the tail accounting  *)
(* and the single float32 division.  Checked against Jaccard!Dist32.       *)
(***************************************************************************)
EXTENDS Jaccard

CONSTANT U          \* universe size: sets are subsets of 0..U-1
VARIABLES a, b,     \* the two sorted duplicate-free arrays
          i, j, u,  \* loop indices and union counter
          res, pc
vars == <<a, b, i, j, u, res, pc>>

RECURSIVE SortedSeq(_)
SortedSeq(S) == IF S = {} THEN <<>> ELSE LET mn == CHOOSE x \in S : \A y \in S : x <= y IN <<mn>> \o SortedSeq(S \ {mn})

Init ==
  /\ a \in { SortedSeq(S) : S \in SUBSET (0..(U - 1)) }
  /\ b \in { SortedSeq(S) : S \in SUBSET (0..(U - 1)) }
  /\ i = 0 /\ j = 0 /\ u = 0 /\ res = F32Zero /\ pc = "loop"

Step ==
  /\ pc = "loop" /\ i < Len(a) /\ j < Len(b)
  /\ u' = u + 1
  /\ i' = IF a[i + 1] <= b[j + 1] THEN i + 1 ELSE i
  /\ j' = IF b[j + 1] <= a[i + 1] THEN j + 1 ELSE j
  /\ UNCHANGED <<a, b, res, pc>>

Finish ==
  /\ pc = "loop" /\ ~(i < Len(a) /\ j < Len(b))
  /\ LET uu == u + (Len(a) - i) + (Len(b) - j) IN
       /\ u' = uu
       /\ res' = IF uu = 0 THEN F32Zero ELSE F32Quot(2 * uu - Len(a) - Len(b), uu)
  /\ pc' = "done"
  /\ UNCHANGED <<a, b, i, j>>

Next == Step \/ Finish
Spec == Init /\ [][Next]_vars

A == Range(a)
B == Range(b)

\* loop invariant: u counts exactly the union elements below the two cursors
LoopInv ==
  pc = "loop" =>
    u = Cardinality({ x \in A \cup B : (i < Len(a) => x < a[i + 1]) /\ (j < Len(b) => x < b[j + 1])
                                      /\ (i < Len(a) \/ j < Len(b)) })
        + (IF i = Len(a) /\ j = Len(b) THEN Cardinality(A \cup B) ELSE 0)

Correct ==
  pc = "done" => /\ u = Cardinality(A \cup B)
                 /\ res = Dist32(A, B)
                 /\ (i = Len(a) \/ j = Len(b))
=============================================================================
