SPECIFICATION Spec
CONSTANTS
  N = 3
  MaxRank = 2
  StartAtThreshold = TRUE
INVARIANT MatchCorrect
INVARIANT NextCorrect
INVARIANT ReportCorrect
INVARIANT NextShape
INVARIANT Monotone
