------------------------------ MODULE Classify ------------------------------
(***************************************************************************)
(* C03 / C09 / C10.  Definitions of the classifier's results, written from *)
(* the property statements.  0 stands for "no taxon".                      *)
(***************************************************************************)
EXTENDS Taxonomy

\* most specific taxon of t's lineage whose threshold covers distance d
MatchingTaxon(parent, thr, t, d) ==
  FirstWhere(Anc(parent, t), LAMBDA a : thr[a] # NoThr /\ d <= thr[a])

\* first taxon at or above t flagged reportable (0 for no taxon / none flagged)
Reportable(parent, report, t) ==
  IF t = 0 THEN 0 ELSE FirstWhere(Anc(parent, t), LAMBDA a : report[a])

\* "next" taxon for genome taxon t at distance d:
\*   - prediction made: nearest threshold-bearing taxon strictly below the prediction in the lineage
\*     (none if the prediction is the genome's own taxon)
\*   - nothing predicted: topmost threshold-bearing taxon of the lineage
NextTaxon(parent, thr, t, d) ==
  LET L == Anc(parent, t)
      pred == MatchingTaxon(parent, thr, t, d)
      pos == IF pred = 0 THEN Len(L) + 1 ELSE CHOOSE i \in DOMAIN L : L[i] = pred
      below == { i \in 1..(pos - 1) : thr[L[i]] # NoThr }
  IN IF below = {} THEN 0 ELSE L[CHOOSE i \in below : \A j \in below : j <= i]

\* ---------------------------------------------------------------- reference genomes
\* gt[g] = taxon of genome g, d[g] = distance rank of genome g (g \in 1..Len(gt))
MinDist(d) == CHOOSE x \in Range(d) : \A y \in Range(d) : x <= y
ArgMins(d) == { g \in DOMAIN d : d[g] = MinDist(d) }
FirstArgMin(d) == CHOOSE g \in ArgMins(d) : \A h \in ArgMins(d) : g <= h

\* C09: the N nearest genomes by (distance, reference order)
RECURSIVE ClosestList(_, _, _)
ClosestList(d, N, excluded) ==
  LET rest == DOMAIN d \ excluded IN
  IF N = 0 \/ rest = {} THEN <<>>
  ELSE LET g == CHOOSE x \in rest : \A y \in rest : d[x] < d[y] \/ (d[x] = d[y] /\ x <= y)
       IN <<g>> \o ClosestList(d, N - 1, excluded \cup {g})

\* ---------------------------------------------------------------- strict mode (C10)
Matched(parent, thr, gt, d) == [g \in DOMAIN gt |-> MatchingTaxon(parent, thr, gt[g], d[g])]
MatchedSet(parent, thr, gt, d) == Range(Matched(parent, thr, gt, d)) \ {0}

\* most specific matched taxa: those with no matched strict descendant
Tips(parent, M) == { t \in M : ~\E s \in M : StrictAnc(parent, t, s) }

\* consensus of a set M of matched taxa: the tip if there is one, else the LCA of the tips (0 = none)
ConsDef(parent, M) ==
  IF M = {} THEN 0
  ELSE LET T == Tips(parent, M) IN
       IF Cardinality(T) = 1 THEN CHOOSE t \in T : TRUE ELSE LCA(parent, T)

\* matched taxa strictly below the consensus (the "conflicting" taxa named in the warning)
Conflicting(parent, M, c) == IF c = 0 THEN {} ELSE { t \in M : StrictAnc(parent, c, t) }

\* genomes admissible as primary match: matched at or below the prediction
PrimaryCandidates(parent, m, c) == { g \in DOMAIN m : m[g] # 0 /\ Leq(parent, c, m[g]) }
=============================================================================
