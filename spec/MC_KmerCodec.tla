---------------------------- MODULE MC_KmerCodec ----------------------------
EXTENDS KmerCodec
\* A C G T a c g t N n @ ` ! and two bytes whose low bits imitate A / T with the high bit set (0xC1, 0xF4)
MCAlphabet == {65, 67, 71, 84, 97, 99, 103, 116, 78, 110, 64, 96, 33, 193, 244}
MCAlphabetSmall == {65, 67, 71, 84, 97, 116, 78, 64}

\* constant-level theorems over the full byte range / all short k-mers
ASSUME \A b \in Byte : (Fold(b) \in {cA, cC, cG, cT}) = IsNuc(b)
ASSUME \A b \in Byte : Comp(Comp(b)) = b
ASSUME \A b \in Byte : IsNuc(b) => /\ IsNuc(Comp(b)) /\ Code(Comp(b)) = 3 - Code(b)
                                   /\ (b \in 97..122) = (Comp(b) \in 97..122)
ASSUME \A b \in Byte : ~IsNuc(b) => Comp(b) = b
ASSUME { b \in Byte : Comp(b) # b } = {cA, cC, cG, cT, ca, cc, cg, ct}
\* Enc restricted to upper-case k-mers is a bijection onto digit tuples, order-isomorphic to base-4 value
\* reverse complement of a concatenation = reverse complements of the pieces in reverse order (lets long sequences be judged piecewise)
ASSUME \A x, y \in UNION { [1..n -> {cA, cC, ca, cN, 64}] : n \in 0..3 } : RevComp(x \o y) = RevComp(y) \o RevComp(x)
ASSUME \A k \in 1..5 :
         LET K == [1..k -> {cA, cC, cG, cT}]  D == [1..k -> 0..3] IN
           /\ \A x \in K : Dec(Enc(x)) = x /\ Enc(x) \in D
           /\ \A d \in D : Enc(Dec(d)) = d /\ Dec(d) \in K
           /\ \A d \in D : PosVal(d, 4) \in 0..(4^k - 1)
ASSUME \A k \in 1..3 : \A d1, d2 \in [1..k -> 0..3] : LexLess(d1, d2) = (PosVal(d1, 4) < PosVal(d2, 4))
=============================================================================
