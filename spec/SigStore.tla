------------------------------ MODULE SigStore ------------------------------
(***************************************************************************)
(* C19 / C12.  Writing a signature file: the calls the writer makes on the *)
(* storage library (h5py/HDF5) and an abstract model of what of them has   *)
(* reached the disk.                                                       *)
(*                                                                         *)
(*   mem   what the library holds (cache + file): root object header       *)
(*         (attributes, links to datasets), dataset headers, raw data      *)
(*   disk  what a process killed NOW would leave behind                    *)
(*                                                                         *)
(* Library model: metadata (object headers) reaches the disk only by Flush *)
(* or Close (or by cache eviction if EvictionPossible); raw data may be    *)
(* written back at any time.  A file is Loadable when the root header on   *)
(* disk carries the format marker and links to the three datasets whose    *)
(* headers are on disk too.  Property (CrashSafe): whatever is Loadable is *)
(* Complete - every attribute present and every dataset fully written.     *)
(* Since the invariant is evaluated in every reachable state, it covers a  *)
(* crash between any two storage-library calls.                            *)
(***************************************************************************)
EXTENDS Base

CONSTANTS EvictionPossible,   \* BOOLEAN: may the library write single metadata objects back on its own?
          ExplicitFlush       \* BOOLEAN: negative control - the writer may call Flush between any two calls

Marker == "gambit_signatures_version"
Attrs == {Marker, "kmerspec_k", "kmerspec_prefix", "id", "name", "id_attr", "version", "description", "extra"}
Datasets == {"ids", "values", "bounds"}

VARIABLES
  call,     \* sequence of storage calls the writer will make (fixed per behaviour)
  pc,       \* number of calls made so far
  mem,      \* [attrs, links : SUBSET, hdr : SUBSET Datasets, size : [Datasets -> Nat], raw : [Datasets -> SUBSET intervals]]
  disk      \* [root : None or Some([attrs, links]), hdr : SUBSET Datasets, raw : [Datasets -> SUBSET intervals]]
vars == <<call, pc, mem, disk>>

NoRaw == [d \in Datasets |-> {}]
EmptyMem == [attrs |-> {}, links |-> {}, hdr |-> {}, size |-> [d \in Datasets |-> 0], raw |-> NoRaw]
EmptyDisk == [root |-> None, hdr |-> {}, raw |-> NoRaw]

\* ------------------------------------------------------------------ effect of one storage call on mem
Apply(m, c) ==
  CASE c.op = "create" -> EmptyMem
    [] c.op = "setattr" -> [m EXCEPT !.attrs = @ \cup {c.name}]
    [] c.op = "create_dataset" ->
         [m EXCEPT !.links = @ \cup {c.name}, !.hdr = @ \cup {c.name}, !.size[c.name] = c.size,
                   !.raw[c.name] = IF c.data /\ c.size > 0 THEN {<<0, c.size>>} ELSE {}]
    [] c.op = "write" -> [m EXCEPT !.raw[c.name] = @ \cup (IF c.hi > c.lo THEN {<<c.lo, c.hi>>} ELSE {})]
    [] c.op \in {"flush", "close"} -> m

FlushAll(m) == [root |-> Some([attrs |-> m.attrs, links |-> m.links]), hdr |-> m.hdr, raw |-> m.raw]

\* ------------------------------------------------------------------ what a reader sees
RECURSIVE Reach(_, _)
Reach(p, S) == LET nxt == { iv \in S : iv[1] <= p /\ iv[2] > p }
               IN IF nxt = {} THEN p ELSE Reach(CHOOSE h \in { iv[2] : iv \in nxt } : \A iv \in nxt : iv[2] <= h, S)
Covered(S, size) == Reach(0, S) >= size

Loadable(dk) ==
  /\ dk.root # None
  /\ Marker \in The(dk.root).attrs
  /\ Datasets \subseteq The(dk.root).links
  /\ Datasets \subseteq dk.hdr

Complete(dk, m) ==
  /\ The(dk.root).attrs = Attrs
  /\ \A d \in Datasets : Covered(dk.raw[d], m.size[d])

CrashSafe == Loadable(disk) => Complete(disk, mem)

\* ------------------------------------------------------------------ actions
Call ==
  /\ pc < Len(call)
  /\ LET c == call[pc + 1] IN
       /\ mem' = Apply(mem, c)
       /\ disk' = IF c.op = "create" THEN EmptyDisk
                  ELSE IF c.op \in {"flush", "close"} THEN FlushAll(mem)
                  ELSE disk
  /\ pc' = pc + 1
  /\ UNCHANGED call

\* the library writes some raw data back (any written interval, any time)
RawWriteback ==
  /\ \E d \in Datasets : \E iv \in mem.raw[d] \ disk.raw[d] :
       disk' = [disk EXCEPT !.raw[d] = @ \cup {iv}]
  /\ UNCHANGED <<call, pc, mem>>

\* the metadata cache evicts one dirty object (only when the model allows it)
Evict ==
  /\ EvictionPossible
  /\ \/ disk' = [disk EXCEPT !.root = Some([attrs |-> mem.attrs, links |-> mem.links])]
     \/ \E d \in mem.hdr \ disk.hdr : disk' = [disk EXCEPT !.hdr = @ \cup {d}]
  /\ disk' # disk
  /\ UNCHANGED <<call, pc, mem>>

\* negative control: the writer flushes between two calls
ExtraFlush ==
  /\ ExplicitFlush /\ pc > 0 /\ pc < Len(call)
  /\ disk' = FlushAll(mem) /\ disk' # disk
  /\ UNCHANGED <<call, pc, mem>>

Next == Call \/ RawWriteback \/ Evict \/ ExtraFlush

\* ------------------------------------------------------------------ the two write paths of HDF5Signatures.create
AttrCalls == << [op |-> "setattr", name |-> Marker], [op |-> "setattr", name |-> "kmerspec_k"],
                [op |-> "setattr", name |-> "kmerspec_prefix"], [op |-> "setattr", name |-> "id"],
                [op |-> "setattr", name |-> "name"], [op |-> "setattr", name |-> "id_attr"],
                [op |-> "setattr", name |-> "version"], [op |-> "setattr", name |-> "description"],
                [op |-> "setattr", name |-> "extra"] >>

\* n signatures of one k-mer each
ArrayPath(n) ==
  <<[op |-> "create"]>> \o AttrCalls \o
  << [op |-> "create_dataset", name |-> "ids", size |-> n, data |-> TRUE],
     [op |-> "create_dataset", name |-> "values", size |-> n, data |-> TRUE],
     [op |-> "create_dataset", name |-> "bounds", size |-> n + 1, data |-> TRUE],
     [op |-> "close"] >>

ItemsPath(n) ==
  <<[op |-> "create"]>> \o AttrCalls \o
  << [op |-> "create_dataset", name |-> "ids", size |-> n, data |-> TRUE],
     [op |-> "create_dataset", name |-> "bounds", size |-> n + 1, data |-> FALSE],
     [op |-> "write", name |-> "bounds", lo |-> 0, hi |-> 1],
     [op |-> "write", name |-> "bounds", lo |-> 1, hi |-> n + 1],
     [op |-> "create_dataset", name |-> "values", size |-> n, data |-> FALSE] >> \o
  [i \in 1..n |-> [op |-> "write", name |-> "values", lo |-> i - 1, hi |-> i]] \o
  <<[op |-> "close"]>>

\* after a complete write the file on disk is loadable and complete (C12: the happy path)
Durable == pc = Len(call) => Loadable(disk) /\ Complete(disk, mem)
=============================================================================
