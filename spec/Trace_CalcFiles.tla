---------------------------- MODULE Trace_CalcFiles ----------------------------
(***************************************************************************)
(* Trace validation for CalcFiles.  Each record of IOEnv.REC_FILE is one   *)
(* real call of calc_file_signatures with a (wrapped) executor:            *)
(*   [n, failing, workers, ev] with events                                 *)
(*     [e |-> "submit", i], [e |-> "done", i, ok], [e |-> "inc"],          *)
(*     [e |-> "return", sigs], [e |-> "raise"]                             *)
(* "done" is the future's done-callback (sequence numbers taken under the  *)
(* executor wrapper's lock); Start is not logged and is inferred, "inc" is *)
(* the progress meter increment that follows a collection (which future    *)
(* was collected is inferred by TLC).                                      *)
(***************************************************************************)
EXTENDS CalcFiles, Json, IOUtils

Traces == ndJsonDeserialize(IOEnv.REC_FILE)
NT == Len(Traces)
VARIABLES tid, l
tvars == <<vars, tid, l>>

ASSUME \A t \in 1..NT : TLCSet(t, 0)

Ev == Traces[tid].ev
TInit == /\ tid \in 1..NT /\ l = 1
         /\ InitN(Traces[tid].n, Range(Traces[tid].failing), Traces[tid].workers)

IsEv(name) == l <= Len(Ev) /\ Ev[l].e = name
Adv == l' = l + 1 /\ UNCHANGED tid

TSubmit == IsEv("submit") /\ Submit(Ev[l].i) /\ Adv
\* a task that is reported done must have been started: Start is composed silently when needed
TStart == /\ IsEv("done") /\ st[Ev[l].i] = "queued" /\ Start(Ev[l].i) /\ UNCHANGED <<tid, l>>
TDone == /\ IsEv("done") /\ Finish(Ev[l].i)
         /\ (st'[Ev[l].i] = "done") = Ev[l].ok
         /\ Adv
TInc == IsEv("inc") /\ (\E i \in Files : Collect(i) /\ outcome' = "running") /\ Adv
TReturn == IsEv("return") /\ Return /\ sigs = Ev[l].sigs /\ Adv
TRaise == /\ IsEv("raise")
          /\ \/ (outcome = "raised" /\ UNCHANGED vars)
             \/ (\E i \in Files : Collect(i) /\ outcome' = "raised")
          /\ Adv
TNext == TSubmit \/ TStart \/ TDone \/ TInc \/ TReturn \/ TRaise
TSpec == TInit /\ [][TNext]_tvars

\* always TRUE: remember how far each trace could be matched (one worker)
Progress == TLCSet(tid, IF TLCGet(tid) > l THEN TLCGet(tid) ELSE l)

Why(t) == IF TLCGet(t) = Len(Traces[t].ev) + 1 THEN <<>>
          ELSE <<"trace-rejected-at-event", ToString(TLCGet(t)),
                 IF TLCGet(t) >= 1 /\ TLCGet(t) <= Len(Traces[t].ev) THEN Traces[t].ev[TLCGet(t)].e ELSE "?">>
Verdict == LET all == [t \in 1..NT |-> [i |-> t, why |-> Why(t)]]
           IN PrintT(ToJson([n |-> NT, bad |-> SelectSeq(all, LAMBDA x : x.why # <<>>)]))
=============================================================================
