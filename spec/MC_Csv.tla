-------------------------------- MODULE MC_Csv --------------------------------
(* CsvParse(CsvWrite(t)) = t for every table of the bounded scope, both dialects. *)
EXTENDS Csv
CONSTANTS MaxFieldLen
\* x , " LF CR space e-acute
Alpha == {120, 44, 34, 10, 13, 32, 233}
Fields == UNION { [1..n -> Alpha] : n \in 0..MaxFieldLen }
\* a lone CR inside an unquoted LF-dialect field cannot be told from a line break by common readers: the specified writer quotes it
ASSUME \A f1 \in Fields, f2 \in Fields :
         /\ CsvParse("CRLF", CsvWrite("CRLF", << <<f1, f2>> >>)) = IF f1 = <<>> /\ f2 = <<>> THEN << <<f1, f2>> >> ELSE << <<f1, f2>> >>
         /\ CsvParse("LF", CsvWrite("LF", << <<f1, f2>>, <<f2, f1>> >>)) = << <<f1, f2>>, <<f2, f1>> >>
\* the reader ends a record at a lone CR and at CRLF (one break), as Python's csv.reader does
ASSUME CsvParse("LF", <<120, 13, 121, 10>>) = << <<<<120>>>>, <<<<121>>>> >>
ASSUME CsvParse("LF", <<120, 13, 10, 121, 10>>) = << <<<<120>>>>, <<<<121>>>> >>
ASSUME CsvParse("LF", <<34, 120, 13, 34, 13, 121>>) = << << <<120, 13>> >>, <<<<121>>>> >>
ASSUME CsvParse("LF", <<120, 34, 120>>) = <<"malformed">>
ASSUME CsvParse("LF", <<34, 120>>) = <<"malformed">>
ASSUME ParseD4(<<48, 46, 49, 50, 51, 52>>) = 1234 /\ ParseD4(<<49, 46, 48, 48, 48, 48>>) = 10000 /\ ParseD4(<<49, 46, 48>>) = -1
=============================================================================
