----------------------------- MODULE KmerSearch -----------------------------
(***************************************************************************)
(* C01.  The search algorithm of gambit.kmers.find_kmers +                 *)
(* gambit.sigs.calc.accumulate_kmers as a state machine; TLC checks        *)
(* algorithm == definition (KmerSig!SigDef) on every small input.          *)
(***************************************************************************)
EXTENDS KmerSig

\* ------------------------------------------------------------------ algorithm
CONSTANTS Seqs,      \* set of input sequences explored by the model
          Ks,        \* set of k
          Pres       \* set of prefixes (upper-case ACGT byte sequences)

VARIABLES seq, k, pre, pc, start, acc, yielded
vars == <<seq, k, pre, pc, start, acc, yielded>>

\* haystack: upper-cased only if a lower-case nucleotide is present (as the code does)
Hay == IF \E i \in 1..Len(seq) : seq[i] \in {ca, cc, cg, ct} THEN UpSeq(seq) ELSE seq

Init ==
  /\ seq \in Seqs /\ k \in Ks /\ pre \in Pres
  /\ pc = "fwd" /\ start = 0 /\ acc = {} /\ yielded = <<>>

\* forward search: loc = haystack.find(prefix, start, -k)
FwdFind ==
  /\ pc = "fwd"
  /\ LET loc == PyFind(Hay, pre, start, Some(0 - k)) IN
       IF loc < 0
       THEN /\ pc' = "rev" /\ start' = k /\ UNCHANGED <<acc, yielded>>
       ELSE LET km == Sub(seq, loc + Len(pre), loc + Len(pre) + k) IN     \* KmerMatch.kmer_indices(), forward
            /\ yielded' = Append(yielded, <<loc, FALSE>>)
            /\ acc' = IF ValidSeq(km) THEN acc \cup {Enc(km)} ELSE acc      \* kmer_to_index raises -> skipped
            /\ start' = loc + 1 /\ pc' = "fwd"
  /\ UNCHANGED <<seq, k, pre>>

\* reverse search: loc = haystack.find(revcomp(prefix), start), start initially k
RevFind ==
  /\ pc = "rev"
  /\ LET loc == PyFind(Hay, RevComp(pre), start, None) IN
       IF loc < 0
       THEN /\ pc' = "done" /\ UNCHANGED <<acc, yielded, start>>
       ELSE LET pos == loc + Len(pre) - 1
                lo  == pos - (Len(pre) + k) + 1                             \* KmerMatch.kmer_indices(), reverse
                hi  == pos - Len(pre) + 1
                km  == Sub(seq, lo, hi) IN
            /\ yielded' = Append(yielded, <<pos, TRUE>>)
            /\ acc' = IF ValidSeq(km) THEN acc \cup {EncRC(km)} ELSE acc
            /\ start' = loc + 1 /\ pc' = "rev"
  /\ UNCHANGED <<seq, k, pre>>

Next == FwdFind \/ RevFind
Spec == Init /\ [][Next]_vars

\* ------------------------------------------------------------------ properties
Correct == pc = "done" => acc = SigDef(seq, k, pre)

\* soundness at every step: nothing outside the definition is ever accumulated
Sound == acc \subseteq SigDef(seq, k, pre)

\* the reverse slice never reaches outside the sequence (no Python negative-index wraparound)
SliceInRange ==
  \A i \in 1..Len(yielded) :
    LET pos == yielded[i][1] IN
      IF yielded[i][2] THEN pos - (Len(pre) + k) + 1 >= 0 /\ pos < Len(seq)
      ELSE pos >= 0 /\ pos + Len(pre) + k <= Len(seq)

\* lemmas used by C06 (checked on the same scope by MC_KmerSearch)
LemmaRevCompInvariant == SigDef(RevComp(seq), k, pre) = SigDef(seq, k, pre)
\* a long sequence may be searched piecewise: pieces [0, c+T-1) and [c, n) with T = |prefix| + k cover every window
LemmaPieces ==
  LET n == Len(seq)  T == Len(pre) + k IN
  \A c \in 0..n : SigDef(seq, k, pre) = SigDef(Sub(seq, 0, Min2(n, c + T - 1)), k, pre) \cup SigDef(Sub(seq, c, n), k, pre)
LemmaCaseInvariant == SigDef(UpSeq(seq), k, pre) = SigDef(seq, k, pre)
=============================================================================
