---------------------------- MODULE ConsensusAlgo ----------------------------
(***************************************************************************)
(* The incremental "trunk" algorithm of gambit.classify.consensus_taxon as *)
(* a state machine (one action per input taxon), checked against           *)
(* Classify!ConsDef for every forest, every set of matched taxa and every  *)
(* order of encounter.                                                     *)
(*   Forked = TRUE  : the algorithm as repaired (remembers that the trunk  *)
(*                    was cut at a fork and never descends again)          *)
(*   Forked = FALSE : the algorithm as found at the pinned commit          *)
(*                    (negative control: TLC must find the order           *)
(*                    dependence, e.g. three siblings [2,3,4] -> 4)        *)
(***************************************************************************)
EXTENDS Classify

CONSTANTS N,          \* number of taxa
          MaxInput,   \* maximum number of matched taxa
          Forked      \* BOOLEAN, see above

VARIABLES parent, input, i, trunk, forked, result
vars == <<parent, input, i, trunk, forked, result>>

\* all duplicate-free sequences over 1..N of length 1..MaxInput
Inputs == UNION { { s \in [1..m -> 1..N] : \A a, b \in 1..m : a # b => s[a] # s[b] } : m \in 1..MaxInput }

IndexOf(s, x) == IF \E k \in DOMAIN s : s[k] = x THEN CHOOSE k \in DOMAIN s : s[k] = x ELSE 0

\* position in trunk where the strict ancestry of t first meets it (0 if never)
Meet(t) ==
  LET A == Anc(parent, parent[t])
      hits == { k \in DOMAIN A : IndexOf(trunk, A[k]) > 0 }
  IN IF hits = {} THEN 0 ELSE IndexOf(trunk, A[CHOOSE k \in hits : \A l \in hits : k <= l])

Init ==
  /\ parent \in Forests(N)
  /\ input \in Inputs
  /\ i = 2
  /\ trunk = Anc(parent, input[1])
  /\ forked = FALSE
  /\ result = -1

Step ==
  /\ result = -1 /\ i <= Len(input)
  /\ LET t == input[i] IN
       IF IndexOf(trunk, t) > 0
       THEN /\ i' = i + 1 /\ UNCHANGED <<trunk, forked, result>>           \* already on the trunk
       ELSE LET m == Meet(t) IN
            IF m = 0
            THEN /\ result' = 0 /\ UNCHANGED <<i, trunk, forked>>         \* no common ancestor
            ELSE IF m = 1
                 THEN /\ trunk' = IF Forked /\ forked THEN trunk ELSE Anc(parent, t)   \* descend
                      /\ i' = i + 1 /\ UNCHANGED <<forked, result>>
                 ELSE /\ trunk' = SubSeq(trunk, m, Len(trunk))             \* cut the trunk at the fork
                      /\ forked' = TRUE
                      /\ i' = i + 1 /\ UNCHANGED result
  /\ UNCHANGED <<parent, input>>

Finish ==
  /\ result = -1 /\ i > Len(input)
  /\ result' = trunk[1]
  /\ UNCHANGED <<parent, input, i, trunk, forked>>

Next == Step \/ Finish
Spec == Init /\ [][Next]_vars

Correct == result # -1 => result = ConsDef(parent, Range(input))

\* the "others" set returned by the code = matched taxa not on the trunk = the conflicting taxa
OthersCorrect ==
  (result > 0) => { t \in Range(input) : IndexOf(trunk, t) = 0 } = Conflicting(parent, Range(input), result)

\* the prediction is comparable with every matched taxon
Comparable ==
  (result > 0) => \A t \in Range(input) : Leq(parent, result, t) \/ Leq(parent, t, result)
=============================================================================
