--------------------------------- MODULE Csv ---------------------------------
(***************************************************************************)
(* RFC 4180 CSV as written by the result and distance-matrix exporters:    *)
(* a writer (minimal quoting) and a reader, both as folds over code points.*)
(* term = "LF" (query results) or "CRLF" (distance matrices).              *)
(* The LF-dialect reader is the common consumer (Python's csv.reader,      *)
(* pandas, spreadsheets): outside quotes LF, CR and CRLF each end a record, *)
(* whatever terminator the writer used - so a field holding a lone CR must  *)
(* be quoted by the writer like one holding LF.                            *)
(***************************************************************************)
EXTENDS Base, SequencesExt

cQ == 34  cComma == 44  cLF == 10  cCR == 13

\* ------------------------------------------------------------------ reader
CsvInit == [rows |-> <<>>, row |-> <<>>, fld |-> <<>>, mode |-> "start", bad |-> FALSE]
EndField(st) == [st EXCEPT !.row = Append(st.row, st.fld), !.fld = <<>>, !.mode = "start"]
EndRow(st) == LET e == EndField(st) IN [e EXCEPT !.rows = Append(e.rows, e.row), !.row = <<>>]

RECURSIVE CsvStep(_, _, _)
CsvStep(term, st, ch) ==
  CASE st.mode = "quoted" -> IF ch = cQ THEN [st EXCEPT !.mode = "qq"] ELSE [st EXCEPT !.fld = Append(st.fld, ch)]
    [] st.mode = "qq" /\ ch = cQ -> [st EXCEPT !.fld = Append(st.fld, cQ), !.mode = "quoted"]
    [] st.mode = "cr" -> IF ch = cLF THEN EndRow([st EXCEPT !.mode = "plain"]) ELSE [st EXCEPT !.bad = TRUE]
    [] st.mode = "crskip" -> IF ch = cLF THEN [st EXCEPT !.mode = "start"] ELSE CsvStep(term, [st EXCEPT !.mode = "start"], ch)
    [] ch = cCR /\ term = "LF" /\ st.mode # "qq" -> [EndRow(st) EXCEPT !.mode = "crskip"]
    [] ch = cCR /\ term = "LF" -> [EndRow([st EXCEPT !.mode = "plain"]) EXCEPT !.mode = "crskip"]      \* CR right after a closing quote
    [] ch = cComma -> EndField(st)
    [] ch = cLF -> IF term = "LF" THEN EndRow(st) ELSE [st EXCEPT !.bad = TRUE]
    [] ch = cCR /\ term = "CRLF" -> [st EXCEPT !.mode = "cr"]
    [] st.mode = "qq" -> [st EXCEPT !.bad = TRUE]                      \* text after a closing quote
    [] st.mode = "start" /\ ch = cQ -> [st EXCEPT !.mode = "quoted"]
    [] st.mode = "plain" /\ ch = cQ -> [st EXCEPT !.bad = TRUE]        \* quote inside an unquoted field
    [] OTHER -> [st EXCEPT !.fld = Append(st.fld, ch), !.mode = "plain"]

\* rows of fields, or <<"malformed">>
CsvParse(term, txt) ==
  LET f == FoldLeft(LAMBDA st, ch : CsvStep(term, st, ch), CsvInit, txt) IN
  IF f.bad \/ f.mode \in {"quoted", "cr"} THEN <<"malformed">>
  ELSE IF f.row = <<>> /\ f.fld = <<>> /\ f.mode \in {"start", "crskip"} THEN f.rows
  ELSE Append(f.rows, Append(f.row, f.fld))

\* ------------------------------------------------------------------ writer (minimal quoting)
NeedsQuote(term, fld) ==
  \E i \in DOMAIN fld : fld[i] \in {cQ, cComma, cLF, cCR}
QuoteField(fld) == <<cQ>> \o FlattenSeq([i \in DOMAIN fld |-> IF fld[i] = cQ THEN <<cQ, cQ>> ELSE <<fld[i]>>]) \o <<cQ>>
WriteField(term, fld) == IF NeedsQuote(term, fld) THEN QuoteField(fld) ELSE fld
Term(term) == IF term = "LF" THEN <<cLF>> ELSE <<cCR, cLF>>
WriteRow(term, row) ==
  FlattenSeq([i \in DOMAIN row |-> IF i = 1 THEN WriteField(term, row[i]) ELSE <<cComma>> \o WriteField(term, row[i])]) \o Term(term)
CsvWrite(term, rows) == FlattenSeq([i \in DOMAIN rows |-> WriteRow(term, rows[i])])

\* ------------------------------------------------------------------ numbers
IsDigit(c) == c \in 48..57
\* "d.dddd" -> ten-thousandths, -1 if the field is not of that form
ParseD4(f) ==
  IF Len(f) = 6 /\ f[2] = 46 /\ IsDigit(f[1]) /\ \A i \in 3..6 : IsDigit(f[i])
  THEN (f[1] - 48) * 10000 + (f[3] - 48) * 1000 + (f[4] - 48) * 100 + (f[5] - 48) * 10 + (f[6] - 48)
  ELSE -1
=============================================================================
