CONSTANTS
  Params = {"DEF", "K1", "K2", "K3", "K4"}
  DEFAULT = "DEF"
  MaxCmds = 0
  GuardQuerySigs = TRUE
INIT Init
NEXT Next
