CONSTANTS
  MaxFieldLen = 2
