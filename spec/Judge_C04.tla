----------------------------- MODULE Judge_C04 -----------------------------
(* Judges reference-database loading outcomes and per-genome distances (property C04). *)
EXTENDS World, Judge, RefDbDef

ClLoad(r) ==
  LET listing == Range(r.listing)
      def == LoadDef(r.genomes, r.sigIds, r.idAttr)
      expOk == Locatable(listing) /\ def.ok
      amb == Ambiguous(r.genomes, r.idAttr)
  IN << <<"loads-iff-complete-and-locatable", amb \/ (r.outcome = "loaded") = expOk>>,
        <<"fails-with-an-error-otherwise", ~expOk => r.outcome = "error">>,
        <<"every-genome-paired-with-its-own-signature", (r.outcome = "loaded" /\ (expOk \/ amb)) =>
              PairingCorrect(r.genomes, r.sigIds, r.idAttr, r.g, r.I)>> >>

ClDist(r) ==
  LET q == Sig(r.db, r.probe)
      exp == [x \in DOMAIN r.g |-> DistBits(q, Sig(r.db, r.db.refs[r.g[x]]))]
  IN
  << <<"no-error", r.ok>>,
     <<"distance-computed-from-the-genomes-own-signature", r.ok => \A c \in DOMAIN r.rows : r.rows[c].dists = exp>> >>

Clauses(r) == IF r.op = "load" THEN ClLoad(r) ELSE ClDist(r)
ASSUME PrintT(ToJson(Verdict(Recs, Clauses)))
=============================================================================
