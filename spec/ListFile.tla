------------------------------ MODULE ListFile ------------------------------
(***************************************************************************)
(* List files (-l / --ql / --rl): one genome file per line.  The command   *)
(* line reads them in text mode (universal newlines: LF, CR and CRLF end a *)
(* line), strips white space from both ends of every line and skips empty  *)
(* lines - so the entries are the same whether or not the last line is     *)
(* terminated, whatever the line ending, and whatever blank lines or       *)
(* padding the file contains.                                              *)
(***************************************************************************)
EXTENDS Base, SequencesExt

cLF == 10  cCR == 13
IsWs(c) == c \in {9, 10, 11, 12, 13, 28, 29, 30, 31, 32, 133, 160, 8232, 8233}      \* what str.strip() removes (subset in use)
IsEol(c) == c \in {cLF, cCR}

RECURSIVE StripL(_)
StripL(s) == IF s # <<>> /\ IsWs(s[1]) THEN StripL(Tail(s)) ELSE s
Strip(s) == Rev(StripL(Rev(StripL(s))))

\* fold over the code points: finished lines and the current one
LfInit == [done |-> <<>>, cur |-> <<>>]
LfStep(st, c) == IF IsEol(c) THEN [done |-> Append(st.done, st.cur), cur |-> <<>>] ELSE [st EXCEPT !.cur = Append(st.cur, c)]
RawLines(txt) == LET f == FoldLeft(LfStep, LfInit, txt) IN Append(f.done, f.cur)

\* the entries of a list file
ParseList(txt) == SelectSeq([i \in DOMAIN RawLines(txt) |-> Strip(RawLines(txt)[i])], LAMBDA l : l # <<>>)

\* ------------------------------------------------------------------ renderings
\* style = [eol |-> "lf" | "crlf" | "cr", final |-> last line terminated?, blanks |-> blank lines between entries?, pad |-> padding?]
Eol(style) == CASE style.eol = "lf" -> <<cLF>> [] style.eol = "crlf" -> <<cCR, cLF>> [] style.eol = "cr" -> <<cCR>>
Render(names, style) ==
  FlattenSeq([i \in DOMAIN names |->
     (IF style.pad THEN <<32, 9>> ELSE <<>>) \o names[i] \o (IF style.pad THEN <<32>> ELSE <<>>)
     \o (IF i < Len(names) \/ style.final THEN Eol(style) ELSE <<>>)
     \o (IF style.blanks /\ i < Len(names) THEN Eol(style) \o <<32>> \o Eol(style) ELSE <<>>)])
Styles == [eol : {"lf", "crlf", "cr"}, final : BOOLEAN, blanks : BOOLEAN, pad : BOOLEAN]
=============================================================================
