SPECIFICATION Spec
CONSTANTS
  Alphabet <- MCAlphabet
  MaxLen = 3
INVARIANT Correct
INVARIANT TypeOK
