----------------------------- MODULE Judge_EXT -----------------------------
(***************************************************************************)
(* Growth of the specification beyond the 20 listed properties: library    *)
(* components judged against the same definitional modules.                *)
(*   taxon ops   Taxon.lca / common_ancestors / lineage / root / depth /   *)
(*               isleaf / leaves / traverse / has_genome   vs Taxonomy     *)
(*   chunks      util.misc.chunk_slices                    vs BulkDist's   *)
(*   generic     metric.jaccard_generic / jaccard_bits     vs Jaccard      *)
(*   dense       sigs.calc.sparse_to_dense / dense_to_sparse               *)
(*   labels      cli.common.strip_seq_file_ext / get_file_id vs Labels     *)
(*   kmerspec    KmerSpec validation and JSON round trip                    *)
(*   dmat        cluster.dump_dmat_csv -> load_dmat_csv     vs Csv          *)
(*   stream      util.io.ClosingIterator / SequenceFile.parse vs StreamDef  *)
(*   accum       sigs.calc.ArrayAccumulator / SetAccumulator as sets         *)
(*   paramgroup  cli.common.check_params_group (exclusive / required)      *)
(*   progress    meter protocol of the long-running calls   vs Progress     *)
(***************************************************************************)
EXTENDS Taxonomy, Jaccard, Labels, Csv, ProgressDef, StreamDef, Nucleotide, Judge

\* ---- taxonomy operations
Children(parent, t) == { c \in DOMAIN parent : parent[c] = t }
RECURSIVE Subtree(_, _)
Subtree(parent, t) == {t} \cup UNION { Subtree(parent, c) : c \in Children(parent, t) }
LeavesOf(parent, t) == { x \in Subtree(parent, t) : Children(parent, x) = {} }
CommonAnc(parent, S) == { a \in DOMAIN parent : \A t \in S : Leq(parent, a, t) }

ClTaxon(r) ==
  LET p == r.parent  S == Range(r.taxa) IN
  << <<"lca", r.lca = (IF S = {} THEN 0 ELSE LCA(p, S))>>,
     <<"common-ancestors-top-down", /\ Range(r.common) = (IF S = {} THEN {} ELSE CommonAnc(p, S))
                                    /\ \A i \in 1..(Len(r.common) - 1) : p[r.common[i + 1]] = r.common[i]
                                    /\ (r.common # <<>> => p[r.common[1]] = 0)>>,
     <<"lineage-is-reversed-ancestry", \A i \in DOMAIN r.lineage : r.lineage[i] = Rev(Anc(p, i))>>,
     <<"root-depth-isleaf", \A i \in DOMAIN r.lineage :
          /\ r.root[i] = Anc(p, i)[Len(Anc(p, i))] /\ r.depth[i] = Len(Anc(p, i)) - 1
          /\ r.isleaf[i] = (Children(p, i) = {})>>,
     <<"leaves-and-traversals", \A i \in DOMAIN r.lineage :
          /\ Range(r.leaves[i]) = LeavesOf(p, i) /\ Len(r.leaves[i]) = Cardinality(LeavesOf(p, i))
          /\ Range(r.pre[i]) = Subtree(p, i) /\ Len(r.pre[i]) = Cardinality(Subtree(p, i)) /\ r.pre[i][1] = i
          /\ Range(r.post[i]) = Subtree(p, i) /\ r.post[i][Len(r.post[i])] = i
          \* preorder: parents before children; postorder: children before parents
          /\ \A a, b \in DOMAIN r.pre[i] : StrictAnc(p, r.pre[i][a], r.pre[i][b]) => a < b
          /\ \A a, b \in DOMAIN r.post[i] : StrictAnc(p, r.post[i][a], r.post[i][b]) => a > b>>,
     <<"has-genome", \A i \in DOMAIN r.has : \A g \in DOMAIN r.has[i] : r.has[i][g] = Leq(p, i, r.gt[g])>> >>

\* ---- chunk_slices(n, size)
RECURSIVE Chunks(_, _, _)
Chunks(n, size, start) == IF start >= n THEN <<>> ELSE <<<<start, start + size>>>> \o Chunks(n, size, start + size)
ClChunks(r) ==
  << <<"rejects-non-positive-size", (r.size <= 0) = (r.err = "ValueError")>>,
     <<"slices", r.size > 0 => r.slices = Chunks(r.n, r.size, 0)>>,
     <<"cover-exactly-once", r.size > 0 => \A x \in 0..(r.n - 1) :
          Cardinality({ i \in DOMAIN r.slices : r.slices[i][1] <= x /\ x < r.slices[i][2] }) = 1>> >>

\* ---- jaccard_generic / jaccard_bits : exact rational == intersection/union (1 for two empty sets); the returned
\* double must be the correctly rounded quotient: checked by n * result_den = result_num * d after exact conversion
ClGeneric(r) ==
  LET A == Range(r.a)  B == Range(r.b)  u == Cardinality(A \cup B)  i == Cardinality(A \cap B) IN
  << <<"generic-index", IF u = 0 THEN r.generic = <<1, 1>> ELSE r.generic[1] * u = i * r.generic[2]>>,
     <<"bits-index", IF u = 0 THEN r.bits = <<1, 1>> ELSE r.bits[1] * u = i * r.bits[2]>> >>

\* ---- dense <-> sparse
ClDense(r) ==
  << <<"dense-has-exactly-the-coordinates", r.ok => { x - 1 : x \in { y \in DOMAIN r.dense : r.dense[y] } } = Range(r.coords) /\ Len(r.dense) = 4 ^ r.k>>,
     <<"sparse-of-dense-is-sorted-coordinates", r.ok => Range(r.back) = Range(r.coords) /\ \A i \in 1..(Len(r.back) - 1) : r.back[i] < r.back[i + 1]>> >>

ClLabels(r) == << <<"strip-seq-file-ext", r.stripped = StripOne(StripOne(r.name, GzExts), FastaExts)>>,
                  <<"file-id", r.fileid = Label(r.path)>> >>

ClKmerSpec(r) ==
  LET okPrefix == Len(r.prefix) >= 0 /\ \A i \in DOMAIN r.prefix : (IF r.prefix[i] \in 97..122 THEN r.prefix[i] - 32 ELSE r.prefix[i]) \in {65, 67, 71, 84} IN
  << <<"valid-iff-k-positive-and-prefix-acgt", (r.err = "") = (r.k >= 1 /\ okPrefix)>>,
     <<"attributes", r.err = "" => /\ r.total = r.k + Len(r.prefix)
                                   /\ r.upper = [i \in DOMAIN r.prefix |-> IF r.prefix[i] \in 97..122 THEN r.prefix[i] - 32 ELSE r.prefix[i]]
                                   /\ r.width = (IF r.k <= 4 THEN 1 ELSE IF r.k <= 8 THEN 2 ELSE IF r.k <= 16 THEN 4 ELSE IF r.k <= 32 THEN 8 ELSE 0)
                                   /\ r.json_roundtrip /\ r.pickle_roundtrip>> >>

ClDmat(r) ==
  LET rows == CsvParse("CRLF", r.text) IN
  << <<"parses", rows # <<"malformed">> /\ Len(rows) = Len(r.rowids) + 1>>,
     <<"header-and-row-ids", rows # <<"malformed">> => /\ rows[1] = <<<<>>>> \o r.colids
                                                       /\ \A i \in DOMAIN r.rowids : rows[i + 1][1] = r.rowids[i]>>,
     <<"load-returns-ids-and-shape", r.loaded_rows = r.rowids /\ r.loaded_cols = r.colids /\ r.shape_ok>> >>

ClParamGroup(r) ==
  LET nf == Cardinality({ i \in DOMAIN r.present : r.present[i] }) IN
  << <<"error-iff-exclusive-violated-or-required-missing", r.error = ((r.exclusive /\ nf > 1) \/ (r.required /\ nf = 0))>> >>

\* ---- access protocol of jaccarddist_matrix (BulkDist!TakeChunk / ArrayCall): one container access per chunk, in order, with the
\* selected reference ids of that chunk, followed by one meter increment of the chunk length per query
ExpectedAccess(sel, size, nq) ==
  LET cs == IF size = 0 THEN <<<<0, Len(sel)>>>> ELSE Chunks(Len(sel), size, 0) IN
  FlattenSeq([c \in DOMAIN cs |->
     LET part == SubSeq(sel, Min2(cs[c][1], Len(sel)) + 1, Min2(cs[c][2], Len(sel))) IN
       <<[e |-> "get", idx |-> part, d |-> 0]>> \o [q \in 1..nq |-> [e |-> "inc", idx |-> <<>>, d |-> Len(part)]]])
ClAccess(r) == << <<"chunk-access-protocol", r.events = ExpectedAccess(r.sel, r.size, r.nq)>> >>

\* ---- stream lifecycle (StreamDef): observations of an operation sequence on a ClosingIterator / SequenceFile.parse()
ClStream(r) ==
  LET src == [n |-> r.n, fail |-> r.fail, after |-> r.after]
      fin == Final(src, S0, r.ops).open IN
  << <<"observations-follow-the-stream-lifecycle", Matches(r.obs, Run(src, S0, r.ops))>>,
     <<"stream-closed-iff-lifecycle-says-so", fin = "unknown" \/ r.closed = (fin = "no")>> >>

\* ---- k-mer accumulators as mutable sets of indices (ArrayAccumulator / SetAccumulator): a history of operations with the observation
\* of each; indices are base-4 digit tuples; add_kmer adds the index of a valid k-mer and ignores an invalid one
AccStep(S, o) ==
  CASE o.o = "add" -> <<S \cup {o.v}, "ok">>
    [] o.o = "discard" -> <<S \ {o.v}, "ok">>
    [] o.o = "contains" -> <<S, IF o.v \in S THEN "yes" ELSE "no">>
    [] o.o = "clear" -> <<{}, "ok">>
    [] o.o = "add_kmer" -> IF Len(o.kmer) # o.k THEN <<S, "ValueError">>
                            ELSE IF ValidSeq(o.kmer) THEN <<S \cup {Enc(o.kmer)}, "ok">> ELSE <<S, "ok">>
RECURSIVE AccRun(_, _, _)
AccRun(S, ops, i) == IF i > Len(ops) THEN <<>> ELSE LET r == AccStep(S, ops[i]) IN <<[obs |-> r[2], n |-> Cardinality(r[1]), set |-> r[1]]>> \o AccRun(r[1], ops, i + 1)
ClAccum(r) ==
  LET exp == AccRun({}, r.ops, 1)
      final == IF r.ops = <<>> THEN {} ELSE exp[Len(exp)].set
  IN << <<"every-operation-observed-as-on-a-set", Len(r.obs) = Len(exp) /\ \A i \in DOMAIN exp : r.obs[i].obs = exp[i].obs /\ r.obs[i].n = exp[i].n>>,
        <<"iteration-yields-the-members", Range(r.members) = final /\ Len(r.members) = Cardinality(final)>>,
        <<"signature-is-the-sorted-set-in-the-smallest-type", Range(r.sig) = final /\ StrictlyIncreasing(r.sig) /\ r.width = IndexWidth(r.k) /\ r.kind = "u">> >>

ClProgress(r) ==
  << <<"meter-protocol", Follows(r.total, r.events, r.returned)>>,
     <<"total-is-the-amount-of-work", r.total = r.expected_total>> >>

Clauses(r) == CASE r.op = "progress" -> ClProgress(r) [] r.op = "access" -> ClAccess(r) [] r.op = "taxon" -> ClTaxon(r) [] r.op = "chunks" -> ClChunks(r) [] r.op = "generic" -> ClGeneric(r)
                [] r.op = "dense" -> ClDense(r) [] r.op = "labels" -> ClLabels(r) [] r.op = "kmerspec" -> ClKmerSpec(r)
                [] r.op = "dmat" -> ClDmat(r) [] r.op = "paramgroup" -> ClParamGroup(r) [] r.op = "stream" -> ClStream(r) [] r.op = "accum" -> ClAccum(r)
ASSUME PrintT(ToJson(Verdict(Recs, Clauses)))
=============================================================================
