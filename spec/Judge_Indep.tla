----------------------------- MODULE Judge_Indep -----------------------------
(* Judges records of the family `strict-archive-independence` (C08; System.tla: a genome gives the same row through every batch and
   position).  r.alone = the genome's complete result item (canonical JSON as code points) when it is queried alone, r.inbatch = its
   item in a batch of several genomes at position r.pos; the comparison covers every field of the archive format, the classifier's
   warnings and error included. *)
EXTENDS Judge

Clauses(r) ==
  << <<"both-runs-succeeded", r.ok>>,
     <<"item-is-the-same-alone-and-in-every-batch", r.ok => r.alone = r.inbatch>> >>

ASSUME PrintT(ToJson(Verdict(Recs, Clauses)))
=============================================================================
