SPECIFICATION Spec
CONSTANTS
  NLeaves = 4
  MaxD = 2
  HeightDenC = 12
INVARIANT Monotone
INVARIANT Partition
INVARIANT Finished
INVARIANT Ultrametric
