SPECIFICATION Spec
CONSTANTS
  Genomes = {"g1", "g2"}
  Params = {"K1", "K2"}
  DEFAULT = "K2"
  Kdb = "K1"
  MaxCmds = 4
  MaxSigFiles = 2
INVARIANT NoSilentMismatch
INVARIANT DbImmutable
INVARIANT ContextFree
INVARIANT Accounting
