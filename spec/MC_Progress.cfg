SPECIFICATION Spec
CONSTANTS
  MaxTotal = 4
INVARIANT Bounded
INVARIANT Complete
