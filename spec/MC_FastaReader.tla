---------------------------- MODULE MC_FastaReader ----------------------------
EXTENDS FastaReader
\* contigs over A C G T N with prefix occurrences at the ends, straddling boundaries, on both strands (k = 2, prefix AT)
\*   ATGC | GCAT (revcomp of the first) ; AT | GCA (AT at the very end: would continue into the next contig) ; ANATCG ; T
MCGenomes == { << <<65,84,71,67>>, <<71,67,65,84>> >>,
               << <<67,65,84>>, <<71,67,65>> >>,
               << <<65,78,65,84,67,71>>, <<84>>, <<65,84,71>> >>,
               << <<65,84,65,84,65>> >>,
               << <<>>, <<67,65,84,71,71>> >> }
MCWidths == {1, 2, 3, 60}
MCPre == <<65, 84>>
\* witness: concatenating the contigs of the second genome would create a k-mer (GC after AT) that the file must not contain
ASSUME LET gen == << <<67,65,84>>, <<71,67,65>> >> IN
         ~(SigDef(gen[1] \o gen[2], 2, MCPre) \subseteq SigDefAll(gen, 2, MCPre))
=============================================================================
