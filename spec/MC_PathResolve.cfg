CONSTANTS
  MaxLen = 4
