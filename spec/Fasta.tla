-------------------------------- MODULE Fasta --------------------------------
(***************************************************************************)
(* C06.  FASTA renderings of a genome (a sequence of contigs) and a        *)
(* byte-level FASTA reader, as used by calc_file_signature.                *)
(* A rendering chooses, independently of the biological content:           *)
(*   perm   order of the contigs          flip   per-contig reverse compl. *)
(*   case   "upper" | "lower" | "mixed"   width  line width >= 1           *)
(*   crlf   CRLF instead of LF            finalnl  final newline present   *)
(* (gzip compression and the file name are applied by the harness; they    *)
(* are opaque to the specification.)                                       *)
(* Property: the signature of the rendered file is the union of the        *)
(* contigs' signatures - whatever the rendering.                           *)
(***************************************************************************)
EXTENDS KmerSig

LF == 10  CR == 13  GT == 62

\* ------------------------------------------------------------------ rendering
ToCase(c, mode) ==
  [i \in 1..Len(c) |->
     LET u == Up(c[i]) IN
     IF mode = "upper" \/ ~IsNuc(c[i]) THEN u
     ELSE IF mode = "lower" THEN u + 32
     ELSE IF i % 2 = 0 THEN u + 32 ELSE u]

Orient(c, flip) == IF flip THEN RevComp(c) ELSE c

Eol(r) == IF r.crlf THEN <<CR, LF>> ELSE <<LF>>

RECURSIVE WrapLines(_, _, _)
WrapLines(s, w, eol) ==
  IF Len(s) <= w THEN s \o eol
  ELSE SubSeq(s, 1, w) \o eol \o WrapLines(SubSeq(s, w + 1, Len(s)), w, eol)

\* header ">cN" for the N-th rendered contig (N <= 9)
HeaderLine(n, eol) == <<GT, 99, 48 + n>> \o eol

Rendered(g, r) == [j \in 1..Len(g) |-> ToCase(Orient(g[r.perm[j]], r.flip[r.perm[j]]), r.case)]

RECURSIVE Concat(_)
Concat(ss) == IF ss = <<>> THEN <<>> ELSE Head(ss) \o Concat(Tail(ss))

Render(g, r) ==
  LET eol == Eol(r)
      body == Concat([j \in 1..Len(g) |-> HeaderLine(j, eol) \o WrapLines(Rendered(g, r)[j], r.width, eol)])
  IN IF r.finalnl \/ body = <<>> THEN body ELSE SubSeq(body, 1, Len(body) - Len(eol))

\* ------------------------------------------------------------------ reader (one step per byte)
\* state: [mode \in {"bol", "header", "seq"}, cur : current sequence or <<"none">>, done : finished contigs]
P0 == [mode |-> "bol", open |-> FALSE, cur |-> <<>>, done |-> <<>>]
PStep(st, b) ==
  CASE b = CR -> st                                                   \* universal newlines: CR LF == LF
    [] b = LF -> [st EXCEPT !.mode = "bol"]
    [] st.mode = "bol" /\ b = GT ->
         [mode |-> "header", open |-> TRUE, cur |-> <<>>,
          done |-> IF st.open THEN Append(st.done, st.cur) ELSE st.done]
    [] st.mode = "header" -> st
    [] OTHER -> IF b = 32 THEN [st EXCEPT !.mode = "seq"]
                ELSE [st EXCEPT !.mode = "seq", !.cur = Append(st.cur, b)]
PFinish(st) == IF st.open THEN Append(st.done, st.cur) ELSE st.done

RECURSIVE PFold(_, _, _)
PFold(st, bytes, i) == IF i > Len(bytes) THEN st ELSE PFold(PStep(st, bytes[i]), bytes, i + 1)
Parse(bytes) == PFinish(PFold(P0, bytes, 1))

\* the signature of a FASTA file: union over its records, never across record boundaries
FileSig(bytes, k, pre) == SigDefAll(Parse(bytes), k, pre)
=============================================================================
