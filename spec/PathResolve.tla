----------------------------- MODULE PathResolve -----------------------------
(***************************************************************************)
(* Which file a path names.  Every input channel of the command line (a    *)
(* positional argument, a list-file entry joined to --ldir) ends in the    *)
(* operating system opening a path; the genome that is read is the one the *)
(* OPERATING SYSTEM resolves the path to, component by component, following*)
(* symbolic links - not the one a textual clean-up of the path would name. *)
(*                                                                         *)
(* A file system is a record                                               *)
(*   kind    : node -> "dir" | "file" | "link"                             *)
(*   parent  : node -> node           (the root is its own parent)         *)
(*   entries : set of <<dir node, name, child node>>                       *)
(*   target  : link node -> sequence of names (absolute path of the target)*)
(* Node 1 is the root.  Names are strings; "." and ".." are never entries. *)
(* A path is a sequence of components (strings); "" stands for the empty   *)
(* component of a doubled separator.                                       *)
(***************************************************************************)
EXTENDS Base

Root == 1
Fail == 0
MaxLinks == 8            \* ELOOP bound

Child(fs, d, name) ==
  LET hits == { e \in fs.entries : e[1] = d /\ e[2] = name }
  IN IF hits = {} THEN Fail ELSE (CHOOSE e \in hits : TRUE)[3]

\* resolution as the kernel does it: left to right, `..` taken in the directory REACHED (after links were followed)
RECURSIVE Walk(_, _, _, _)
Walk(fs, cur, comps, budget) ==
  IF comps = <<>> THEN cur
  ELSE LET c == Head(comps)  rest == Tail(comps) IN
       IF fs.kind[cur] # "dir" THEN Fail                                   \* ENOTDIR
       ELSE IF c = "" \/ c = "." THEN Walk(fs, cur, rest, budget)
       ELSE IF c = ".." THEN Walk(fs, fs.parent[cur], rest, budget)
       ELSE LET ch == Child(fs, cur, c) IN
            IF ch = Fail THEN Fail                                         \* ENOENT
            ELSE IF fs.kind[ch] = "link"
                 THEN IF budget = 0 THEN Fail                              \* ELOOP
                      ELSE Walk(fs, Root, fs.target[ch] \o rest, budget - 1)
                 ELSE Walk(fs, ch, rest, budget)

\* the node an (absolute) path names, Fail if none
Resolve(fs, comps) == Walk(fs, Root, comps, MaxLinks)

\* joining a directory and an entry as os.path.join / pathlib do (an absolute entry would replace the directory: not modelled, entries are relative)
Join(dir, entry) == dir \o entry

\* textual clean-up (os.path.normpath on an absolute path): drops "" and ".", cancels `name/..` pairs, `..` at the root stays at the root
RECURSIVE NormAcc(_, _)
NormAcc(acc, comps) ==
  IF comps = <<>> THEN acc
  ELSE LET c == Head(comps) IN
       IF c = "" \/ c = "." THEN NormAcc(acc, Tail(comps))
       ELSE IF c = ".." THEN NormAcc(IF acc = <<>> THEN acc ELSE SubSeq(acc, 1, Len(acc) - 1), Tail(comps))
       ELSE NormAcc(Append(acc, c), Tail(comps))
Normpath(comps) == NormAcc(<<>>, comps)

\* well-formedness of a file system description
WF(fs) ==
  /\ fs.kind[Root] = "dir" /\ fs.parent[Root] = Root
  /\ \A e \in fs.entries : /\ fs.kind[e[1]] = "dir" /\ e[2] \notin {"", ".", ".."} /\ e[3] # Root
                           /\ fs.parent[e[3]] = e[1]
  /\ \A e, f \in fs.entries : (e[1] = f[1] /\ e[2] = f[2]) => e = f               \* one child per name
  /\ \A e, f \in fs.entries : e[3] = f[3] => e = f                                \* a tree (no hard links)

HasLinks(fs) == \E n \in DOMAIN fs.kind : fs.kind[n] = "link"
=============================================================================
