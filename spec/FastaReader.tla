----------------------------- MODULE FastaReader -----------------------------
(* The FASTA reader as a state machine (one action per input byte) over every rendering of small genomes: the parsed
   records are the rendered contigs, and the file signature equals the union of the ORIGINAL contigs' signatures. *)
EXTENDS Fasta

CONSTANTS Genomes, Widths, K, Pre
VARIABLES g, r, bytes, pos, st
vars == <<g, r, bytes, pos, st>>

Perms(n) == { p \in [1..n -> 1..n] : \A a, b \in 1..n : a # b => p[a] # p[b] }
Renderings(n) == [perm : Perms(n), flip : [1..n -> BOOLEAN], case : {"upper", "lower", "mixed"},
                  width : Widths, crlf : BOOLEAN, finalnl : BOOLEAN]

Init == /\ g \in Genomes /\ r \in Renderings(Len(g))
        /\ bytes = Render(g, r) /\ pos = 1 /\ st = P0

Byte1 == /\ pos <= Len(bytes)
         /\ st' = PStep(st, bytes[pos]) /\ pos' = pos + 1
         /\ UNCHANGED <<g, r, bytes>>
Next == Byte1
Spec == Init /\ [][Next]_vars

AtEnd == pos = Len(bytes) + 1
ParsedIsRendered == AtEnd => PFinish(st) = Rendered(g, r)
SignatureInvariant == AtEnd => SigDefAll(PFinish(st), K, Pre) = SigDefAll(g, K, Pre)
\* non-vacuity of "no k-mer across a contig boundary" is checked in MC_FastaReader (a witness genome)
=============================================================================
