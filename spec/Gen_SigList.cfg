SPECIFICATION Spec
CONSTANTS
  MaxLen = 5
  MaxDepth = 7
  Vals = {7, 8, 9}
  Record = TRUE
INVARIANT Emit
