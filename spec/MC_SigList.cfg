SPECIFICATION Spec
CONSTANTS
  MaxLen = 3
  MaxDepth = 2
  Vals = {7, 8}
  Record = FALSE
INVARIANT TypeOK
