SPECIFICATION Spec
CONSTANTS
  Alphabet <- MCAlphabetSmall
  MaxLen = 4
INVARIANT Correct
INVARIANT TypeOK
