----------------------------- MODULE Judge_C14 -----------------------------
(* Judges runs of the real command line against the parameter-reconciliation table (property C14).
   r.expect comes from the TLC generator (Gen_Cli); r.params maps each parameter token to [k, pre];
   on success the observed matrix (ten-thousandths) must be the distances under the parameters the spec selects. *)
EXTENDS World, Judge

SigK(P, contigs) == SigDefAll(contigs, P.k, P.pre)
ExpCell(P, qc, rc) == Round4(Dist(SigK(P, qc), SigK(P, rc)))

Clauses(r) ==
  << <<"mismatch-is-an-error", ~r.expect.ok => r.rc # 0>>,
     <<"no-result-written-on-error", ~r.expect.ok => ~r.wrote>>,
     <<"consistent-parameters-succeed", r.expect.ok => r.rc = 0 /\ r.wrote>>,
     <<"both-sides-use-the-selected-parameters", (r.expect.ok /\ r.rc = 0 /\ r.cmd = "dist") =>
          LET P == r.params[r.expect.ks] IN
            /\ Len(r.cells) = Len(r.qseqs)
            /\ \A i \in DOMAIN r.cells : /\ Len(r.cells[i]) = Len(r.rseqs)
                                         /\ \A j \in DOMAIN r.cells[i] : CellOK(r.cells[i][j], Dist(SigK(P, r.qseqs[i]), SigK(P, r.rseqs[j])))>>,
     <<"query-rows-present", (r.expect.ok /\ r.rc = 0 /\ r.cmd = "query") => r.nrows = Len(r.qseqs)>> >>

ASSUME PrintT(ToJson(Verdict(Recs, Clauses)))
=============================================================================
