----------------------------- MODULE Judge_C03 -----------------------------
(* Judges records of default-mode classification (classify(strict=False), GenomeMatch.next_taxon, reportable_taxon,
   get_result_item) against the definitions of Classify (property C03).  Taxa/genomes are 1-based, 0 = none. *)
EXTENDS Classify, Judge

ClOne(r, x) ==
  LET md == MinDist(r.d)
      cg == x.closest_g
      okc == cg \in ArgMins(r.d)
      t == IF okc THEN r.gt[cg] ELSE r.gt[FirstArgMin(r.d)]
      pred == MatchingTaxon(r.parent, r.thr, t, md)
  IN << <<"no-error", x.ok /\ x.success /\ x.nwarn = 0>>,
        <<"closest-match-is-at-minimum-distance", x.ok => okc /\ x.closest_d = md>>,
        <<"prediction-follows-lineage-and-thresholds", x.ok => x.pred = pred>>,
        <<"closest-match-taxon", x.ok => x.closest_mt = pred>>,
        <<"primary-is-closest-iff-predicted", x.ok => x.primary_g = (IF pred # 0 THEN cg ELSE 0)>>,
        <<"next-taxon", x.ok => x.next = NextTaxon(r.parent, r.thr, t, md)>>,
        <<"reported-taxon", x.ok => x.report = Reportable(r.parent, r.report, pred)>> >>

\* a sweep: same forest and genome, distance rank increasing over the runs -> predictions only coarsen
Monotone(r) ==
  \A i, j \in DOMAIN r.runs :
    (i < j /\ r.runs[i].ok /\ r.runs[j].ok) =>
       (r.runs[j].pred = 0 \/ (r.runs[i].pred # 0 /\ Leq(r.parent, r.runs[j].pred, r.runs[i].pred)))

Clauses(r) ==
  IF r.op = "one" THEN ClOne(r, r.res)
  ELSE \* "sweep": r.runs[i] is the result for distance rank r.ds[i] of the single genome
    << <<"each-run", \A i \in DOMAIN r.runs : Failed(ClOne([r EXCEPT !.d = <<r.ds[i]>>], r.runs[i])) = <<>> >>,
       <<"increasing-distance-only-coarsens", Monotone(r)>> >>

ASSUME PrintT(ToJson(Verdict(Recs, Clauses)))
=============================================================================
