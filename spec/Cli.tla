--------------------------------- MODULE Cli ---------------------------------
(***************************************************************************)
(* C14 (and the parameter part of C16/C17).  Reconciliation of k-mer        *)
(* parameters by the commands that bring signature sources together.       *)
(* A k-mer parameter set is a token (K1, K2, ...); DEFAULT is the built-in *)
(* one.  A source is [kind, ks]:                                           *)
(*   "files"   genome files, signatures computed with the chosen params    *)
(*   "sigs"    a pre-computed signature file with params ks                *)
(*   "db"      the reference database's signatures with params ks          *)
(*   "square"  the queries themselves (dist --square)                      *)
(* explicit is None, Some(K) (both -k and -p), <<"partial">> (only one) or  *)
(* <<"invalid">> (both given but not a legal parameter set: k outside 5..32,*)
(* which is refused - never adjusted to the nearest legal value).          *)
(***************************************************************************)
EXTENDS Base

CONSTANTS Params, DEFAULT      \* Params: set of parameter tokens; DEFAULT \in Params
Err == [ok |-> FALSE]
Use(K) == [ok |-> TRUE, ks |-> K]
Partial == <<"partial">>
Invalid == <<"invalid">>

Fixed(src) == IF src.kind \in {"sigs", "db"} THEN {src.ks} ELSE {}

\* ---- definition: every parameter set that is pinned down (by a signature source or by explicit options) must be the
\* same one; it is then used for everything that still has to be computed; DEFAULT if nothing pins one down
DistDef(explicit, q, r) ==
  IF explicit \in {Partial, Invalid} THEN Err
  ELSE LET pinned == Fixed(q) \cup Fixed(r) \cup (IF explicit = None THEN {} ELSE {The(explicit)}) IN
       IF Cardinality(pinned) > 1 THEN Err
       ELSE IF pinned = {} THEN Use(DEFAULT) ELSE Use(CHOOSE K \in pinned : TRUE)

\* query: files are always processed with the database's parameters; pre-computed signatures must have them
QueryDef(q, db) == IF q.kind = "sigs" /\ q.ks # db.ks THEN Err ELSE Use(db.ks)

\* ---- the decision procedure of `gambit dist` as written (if-chain), for the equivalence check
DistAlgo(explicit, q, r) ==
  LET qs == q.kind = "sigs"  rs == r.kind \in {"sigs", "db"} IN
  IF explicit \in {Partial, Invalid} THEN Err
  ELSE IF explicit = None
       THEN IF qs /\ rs /\ q.ks # r.ks THEN Err
            ELSE IF qs THEN Use(q.ks) ELSE IF rs THEN Use(r.ks) ELSE Use(DEFAULT)
       ELSE IF qs /\ q.ks # The(explicit) THEN Err
            ELSE IF rs /\ r.ks # The(explicit) THEN Err
            ELSE Use(The(explicit))

QSources == [kind : {"files"}, ks : {DEFAULT}] \cup [kind : {"sigs"}, ks : Params]
RSources == [kind : {"files", "square"}, ks : {DEFAULT}] \cup [kind : {"sigs", "db"}, ks : Params]
Explicits == {None, Partial, Invalid} \cup { Some(K) : K \in Params }

\* ---- a history of commands: what was compared with what, what was written
VARIABLES compared,   \* set of <<ksQuery, ksReference>> of every comparison performed so far
          written,    \* number of result files written
          failed,     \* number of commands that exited non-zero
          n
vars == <<compared, written, failed, n>>
CONSTANT MaxCmds, GuardQuerySigs     \* GuardQuerySigs = FALSE: `query -s` as found at the pinned commit (no check)

Init == compared = {} /\ written = 0 /\ failed = 0 /\ n = 0

Dist(explicit, q, r) ==
  /\ n < MaxCmds
  /\ LET o == DistAlgo(explicit, q, r) IN
       IF o.ok
       THEN /\ compared' = compared \cup {<<IF q.kind = "sigs" THEN q.ks ELSE o.ks, IF r.kind \in {"sigs", "db"} THEN r.ks ELSE o.ks>>}
            /\ written' = written + 1 /\ UNCHANGED failed
       ELSE /\ failed' = failed + 1 /\ UNCHANGED <<compared, written>>
  /\ n' = n + 1

Query(q, db) ==
  /\ n < MaxCmds
  /\ LET o == IF GuardQuerySigs THEN QueryDef(q, db) ELSE Use(db.ks) IN
       IF o.ok
       THEN /\ compared' = compared \cup {<<IF q.kind = "sigs" THEN q.ks ELSE db.ks, db.ks>>}
            /\ written' = written + 1 /\ UNCHANGED failed
       ELSE /\ failed' = failed + 1 /\ UNCHANGED <<compared, written>>
  /\ n' = n + 1

DistAny == \E e \in Explicits, q \in QSources, r \in RSources : Dist(e, q, r)
QueryAny == \E q \in QSources, db \in [kind : {"db"}, ks : Params] : Query(q, db)
Next == DistAny \/ QueryAny
Spec == Init /\ [][Next]_vars

NoSilentMismatch == \A c \in compared : c[1] = c[2]
Accounting == written + failed = n
=============================================================================
