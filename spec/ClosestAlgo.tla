----------------------------- MODULE ClosestAlgo -----------------------------
(***************************************************************************)
(* C09.  gambit.query.get_result_item lists argsort(dists)[:N].  Modelled  *)
(* as an insertion sort of the index array by distance, one action per     *)
(* shift; Stable = TRUE shifts only past strictly larger distances (a      *)
(* stable sort, as repaired: kind='stable'), Stable = FALSE also shifts    *)
(* past equal ones (an admissible behaviour of an unstable sort - the      *)
(* negative control).  Checked against Classify!ClosestList, the           *)
(* (distance, reference order) prefix, and against the classifier's        *)
(* closest match (first index of the minimum, numpy.argmin).               *)
(***************************************************************************)
EXTENDS Classify

CONSTANTS MaxN, MaxRank, Stable
VARIABLES d, N, arr, i, j, pc
vars == <<d, N, arr, i, j, pc>>

Init ==
  /\ d \in UNION { [1..n -> 0..MaxRank] : n \in 1..MaxN }
  /\ N \in 1..(MaxN + 1)
  /\ arr = [k \in 1..Len(d) |-> k]
  /\ i = 2 /\ j = 2 /\ pc = "outer"

Outer ==
  /\ pc = "outer"
  /\ IF i > Len(d) THEN pc' = "done" /\ UNCHANGED <<i, j>>
     ELSE pc' = "inner" /\ j' = i /\ UNCHANGED i
  /\ UNCHANGED <<d, N, arr>>

ShiftCond == IF Stable THEN d[arr[j - 1]] > d[arr[j]] ELSE d[arr[j - 1]] >= d[arr[j]]

Inner ==
  /\ pc = "inner"
  /\ IF j > 1 /\ ShiftCond
     THEN /\ arr' = [arr EXCEPT ![j - 1] = arr[j], ![j] = arr[j - 1]]
          /\ j' = j - 1 /\ UNCHANGED <<i, pc>>
     ELSE /\ i' = i + 1 /\ pc' = "outer" /\ UNCHANGED <<arr, j>>
  /\ UNCHANGED <<d, N>>

Next == Outer \/ Inner
Spec == Init /\ [][Next]_vars

Prefix == SubSeq(arr, 1, Min2(N, Len(d)))
Correct == pc = "done" => Prefix = ClosestList(d, N, {})
FirstIsClosest == pc = "done" => arr[1] = FirstArgMin(d)
\* properties of the definition
DefShape ==
  LET L == ClosestList(d, N, {}) IN
    /\ Len(L) = Min2(N, Len(d))
    /\ \A a, b \in DOMAIN L : a < b => (d[L[a]] < d[L[b]] \/ (d[L[a]] = d[L[b]] /\ L[a] < L[b]))
    /\ \A g \in DOMAIN d : (\A a \in DOMAIN L : L[a] # g) => \A a \in DOMAIN L : d[L[a]] <= d[g]
=============================================================================
