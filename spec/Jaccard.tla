------------------------------ MODULE Jaccard ------------------------------
(***************************************************************************)
(* C02 / C15.  Jaccard distance on finite sets of naturals, the float32    *)
(* value the implementation must report, and the metric axioms.            *)
(* Sets of k-mer indices are abstracted to sets of ranks (an injective,    *)
(* order-preserving renaming; set algebra and order are preserved).        *)
(***************************************************************************)
EXTENDS Base

SymDiff(A, B) == (A \ B) \cup (B \ A)

\* exact distance as a rational <<numerator, denominator>>; <<0, 1>> for two empty sets
Dist(A, B) == IF A \cup B = {} THEN <<0, 1>> ELSE <<Cardinality(SymDiff(A, B)), Cardinality(A \cup B)>>

\* the binary32 value that must be reported: the exact ratio rounded once
Dist32(A, B) == LET q == Dist(A, B) IN F32Quot(q[1], q[2])

\* ---------------------------------------------------------------- sets given as unions of intervals
\* A set of naturals given as a sequence of disjoint half-open intervals <<lo, hi>>: cardinalities by arithmetic, so that
\* sets of millions of elements can be judged (the quotient is still rounded by F32Quot; union < 2^24)
IvLen(iv) == IF iv[2] > iv[1] THEN iv[2] - iv[1] ELSE 0
RECURSIVE IvCard(_)
IvCard(S) == IF S = <<>> THEN 0 ELSE IvLen(S[1]) + IvCard(Tail(S))
IvMeet(x, y) == IvLen(<<Max2(x[1], y[1]), Min2(x[2], y[2])>>)
RECURSIVE IvMeetRow(_, _), IvMeetAll(_, _)
IvMeetRow(x, T) == IF T = <<>> THEN 0 ELSE IvMeet(x, T[1]) + IvMeetRow(x, Tail(T))
IvMeetAll(S, T) == IF S = <<>> THEN 0 ELSE IvMeetRow(S[1], T) + IvMeetAll(Tail(S), T)
IvDisjointSorted(S) == \A i \in 1..(Len(S) - 1) : S[i][2] <= S[i + 1][1]
DistIv(S, T) ==
  LET a == IvCard(S)  b == IvCard(T)  m == IvMeetAll(S, T)
  IN IF a + b - m = 0 THEN <<0, 1>> ELSE <<a + b - 2 * m, a + b - m>>
Dist32Iv(S, T) == LET q == DistIv(S, T) IN F32Quot(q[1], q[2])
\* the interval form agrees with the set form (checked by MC_JaccardAxioms on small intervals)
IvSet(S) == UNION { S[i][1]..(S[i][2] - 1) : i \in DOMAIN S }

\* ------------------------------------------------------------------ fixed point for sums of float32 in [0,1]
\* value in units of 2^-47 as two limbs <<hi, lo>> base 2^24 (floats below 2^-24 do not occur for d < 2^24)
Fix(x) ==
  IF x.z THEN <<0, 0>>
  ELSE LET t == x.e + 24 IN       \* 0 <= t <= 24 ; value = m * 2^t units
       IF t = 24 THEN <<x.m, 0>>
       ELSE LET p == 2 ^ (24 - t) IN <<x.m \div p, (x.m % p) * (2 ^ t)>>
FixAdd(a, b) == LET lo == a[2] + b[2] IN <<a[1] + b[1] + lo \div 16777216, lo % 16777216>>
FixLeq(a, b) == a[1] < b[1] \/ (a[1] = b[1] /\ a[2] <= b[2])
Slack22 == <<2, 0>>               \* 2^-22 = 2^25 units = 2 * 2^24
FixOne == <<8388608, 0>>          \* 1.0 = 2^47 units

\* The Jaccard index is reported as 1 - (float32 distance), computed exactly (the implementation subtracts in
\* double precision, where 1 - x is exact for every float32 x in [2^-24, 1]).  j is a two-limb fixed-point value.
IsOneMinus(j, d32) == FixAdd(Fix(d32), j) = FixOne

\* ------------------------------------------------------------------ metric axioms
\* exact rationals, compared by cross-multiplication
RatLeq(p, q) == p[1] * q[2] <= q[1] * p[2]
RatLess(p, q) == p[1] * q[2] < q[1] * p[2]
RatAdd(p, q) == <<p[1] * q[2] + q[1] * p[2], p[2] * q[2]>>

AxiomsExact(A, B, C) ==
  /\ RatLeq(<<0, 1>>, Dist(A, B)) /\ RatLeq(Dist(A, B), <<1, 1>>)
  /\ (Dist(A, B)[1] = 0) = (A = B)
  /\ (Dist(A, B)[1] = Dist(A, B)[2]) = (A \cap B = {} /\ A \cup B # {})
  /\ Dist(A, B) = Dist(B, A)
  /\ RatLeq(Dist(A, C), RatAdd(Dist(A, B), Dist(B, C)))

Axioms32(A, B, C) ==
  /\ F32Leq(F32Zero, Dist32(A, B)) /\ F32Leq(Dist32(A, B), F32One)
  /\ (Dist32(A, B) = F32Zero) = (A = B)
  /\ (Dist32(A, B) = F32One) = (A \cap B = {} /\ A \cup B # {})
  /\ Dist32(A, B) = Dist32(B, A)
  /\ FixLeq(Fix(Dist32(A, C)), FixAdd(FixAdd(Fix(Dist32(A, B)), Fix(Dist32(B, C))), Slack22))

\* adding a k-mer absent from both sets to both strictly decreases the distance (for A # B)
AugmentDecreases(A, B, x) ==
  (x \notin A \cup B /\ A # B) =>
     /\ RatLess(Dist(A \cup {x}, B \cup {x}), Dist(A, B))
     /\ F32Less(Dist32(A \cup {x}, B \cup {x}), Dist32(A, B))
=============================================================================
