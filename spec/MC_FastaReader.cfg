SPECIFICATION Spec
CONSTANTS
  Genomes <- MCGenomes
  Widths <- MCWidths
  K = 2
  Pre <- MCPre
INVARIANT ParsedIsRendered
INVARIANT SignatureInvariant
