----------------------------- MODULE ProgressDef -----------------------------
(* The progress-meter protocol of Progress.tla as a predicate on a recorded event sequence (variable-free, for the judge). *)
EXTENDS Base

\* events: [e |-> "inc", d], [e |-> "moveto", n], [e |-> "close"]; st = [n, closed, bad]
PStep(tot, st, ev) ==
  CASE st.bad -> st
    [] ev.e = "inc" -> IF st.closed \/ ev.d < 0 \/ st.n + ev.d > tot THEN [st EXCEPT !.bad = TRUE] ELSE [st EXCEPT !.n = @ + ev.d]
    [] ev.e = "moveto" -> IF st.closed \/ ev.n < st.n \/ ev.n > tot THEN [st EXCEPT !.bad = TRUE] ELSE [st EXCEPT !.n = ev.n]
    [] ev.e = "close" -> [st EXCEPT !.closed = TRUE]        \* closing twice is tolerated (idempotent close)
    [] OTHER -> [st EXCEPT !.bad = TRUE]
RECURSIVE PRun(_, _, _, _)
PRun(tot, st, evs, i) == IF i > Len(evs) THEN st ELSE PRun(tot, PStep(tot, st, evs[i]), evs, i + 1)
Follows(tot, evs, returned) ==
  LET f == PRun(tot, [n |-> 0, closed |-> FALSE, bad |-> FALSE], evs, 1)
  IN ~f.bad /\ f.closed /\ (returned => f.n = tot)
=============================================================================
