----------------------------- MODULE Judge_C12 -----------------------------
(* Judges signature-file round trips, indexing of loaded files and refusal of foreign files (property C12). *)
EXTENDS SigClauses

SameContent(a, b) ==
  /\ a.k = b.k /\ a.prefix = b.prefix /\ a.dtype = b.dtype
  /\ a.ids_kind = b.ids_kind /\ a.ids = b.ids
  /\ a.meta = b.meta
  /\ a.items = b.items

ClRoundTrip(r) ==
  << <<"write-and-load-succeed", r.ok>>,
     <<"same-kmer-parameters", r.ok => r.loaded.k = r.orig.k /\ r.loaded.prefix = r.orig.prefix>>,
     <<"same-integer-type", r.ok => r.loaded.dtype = r.orig.dtype>>,
     <<"same-ids", r.ok => r.loaded.ids_kind = r.orig.ids_kind /\ r.loaded.ids = r.orig.ids>>,
     <<"same-metadata", r.ok => r.loaded.meta = r.orig.meta>>,
     <<"same-signatures", r.ok => r.loaded.items = r.orig.items>>,
     <<"same-content", r.ok => SameContent(r.loaded, r.orig)>> >>

\* classes of files that are not signature files: must be refused with the dedicated error
Foreign == {"empty", "short", "text", "fasta", "gzip", "sqlite", "hdf5-no-marker", "hdf5-other-attrs", "hdf5-marker-on-subgroup",
            "hdf5-magic-then-garbage", "hdf5-magic-only", "json", "binary"}
\* damaged or unknown-version signature files: must not load as a collection, any error class
Damaged == {"truncated-gs", "marker-but-no-datasets", "marker-other-version"}

ClForeign(r) ==
  << <<"known-class", r.class \in Foreign \cup Damaged>>,
     <<"never-loaded", r.outcome # "loaded">>,
     <<"refused-with-the-dedicated-error", r.class \in Foreign => r.outcome = "SignaturesFileError">> >>

Clauses(r) == CASE r.op = "roundtrip" -> ClRoundTrip(r) [] r.op = "index" -> ClIndex(r) [] r.op = "foreign" -> ClForeign(r)

ASSUME PrintT(ToJson(Verdict(Recs, Clauses)))
=============================================================================
