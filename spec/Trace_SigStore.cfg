SPECIFICATION TSpec
CONSTANTS
  EvictionPossible = FALSE
  ExplicitFlush = FALSE
INVARIANT Observe
POSTCONDITION Verdict
CHECK_DEADLOCK FALSE
