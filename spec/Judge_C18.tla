----------------------------- MODULE Judge_C18 -----------------------------
(* Judges observed histories of commands / library calls against a database directory (property C18): every step is
   checked against the step relation of the read-only session and the immutability of the files. *)
EXTENDS DbSessionDef, Judge

Clauses(r) ==
  << <<"known-commands", \A i \in DOMAIN r.steps : r.steps[i].cmd \in Cmds \cup ExtraCmds>>,
     <<"database-files-and-listing-unchanged-after-every-step", \A i \in DOMAIN r.steps : r.steps[i].unchanged>>,
     <<"wal-companions-only-while-a-session-is-open", \A i \in DOMAIN r.steps :
          r.steps[i].sidecar => SessionOpen([j \in DOMAIN r.steps |-> r.steps[j].cmd], i)>>,
     <<"journal-only-while-a-statement-level-write-is-open", \A i \in DOMAIN r.steps :
          r.steps[i].journal => StmtOpen([j \in DOMAIN r.steps |-> r.steps[j].cmd], i)>>,
     \* r.lenient: the genome file is damaged or foreign (a table missing, zero bytes, another SQLite schema) - commands may fail there,
     \* only the immutability clauses apply
     <<"commit-is-refused-and-failing-commands-fail", r.lenient \/ \A i \in DOMAIN r.steps : r.steps[i].outcome \in Outcomes(r.steps[i].cmd)>>,
     <<"pending-changes-are-never-flushed", r.lenient \/ \A i \in DOMAIN r.steps :
          LET before == IF i = 1 THEN NoPending ELSE r.steps[i - 1].pending
          IN r.steps[i].pending \in PendingAfter(r.steps[i].cmd, before)>> >>

ASSUME PrintT(ToJson(Verdict(Recs, Clauses)))
=============================================================================
