----------------------------- MODULE Judge_C01 -----------------------------
(* Judges calc_signature / find_kmers call records against the definition SigDef (property C01). *)
EXTENDS KmerSig, Judge

Expected(r) == SigDefAll(r.seqs, r.k, r.pre)

\* r.must_fail: the sequence is text holding a symbol outside ASCII - not a nucleotide sequence at all; it must be refused (never
\* silently cleaned up and searched)
ClSig(r) ==
  IF r.must_fail THEN << <<"text-outside-ascii-is-refused", \A i \in DOMAIN r.outs : ~r.outs[i].ok>> >> ELSE
  << <<"no-error", \A i \in DOMAIN r.outs : r.outs[i].ok>>,
     <<"smallest-unsigned-dtype", \A i \in DOMAIN r.outs : r.outs[i].ok =>
           (r.outs[i].kind = "u" /\ r.outs[i].width = IndexWidth(r.k))>>,
     <<"strictly-increasing", \A i \in DOMAIN r.outs : r.outs[i].ok => StrictlyIncreasing(r.outs[i].sig)>>,
     <<"digits-wellformed", \A i \in DOMAIN r.outs : r.outs[i].ok =>
           (r.outs[i].inrange /\ \A j \in DOMAIN r.outs[i].sig : Len(r.outs[i].sig[j]) = r.k)>>,
     <<"equals-definition", LET exp == Expected(r) IN \A i \in DOMAIN r.outs : r.outs[i].ok => Range(r.outs[i].sig) = exp>> >>

ClFind(r) ==
  LET valid == { i \in DOMAIN r.matches : r.matches[i].valid }
      exp == Expected(r)                       \* evaluated once (thousands of matches on long sequences with one-letter prefixes)
      found == { r.matches[i].idx : i \in valid }
  IN
  << <<"no-error", r.ok>>,
     <<"matches-sound", r.ok => found \subseteq exp>>,
     <<"matches-complete", r.ok => found = exp>> >>

Clauses(r) == IF r.op = "sig" THEN ClSig(r) ELSE ClFind(r)

ASSUME PrintT(ToJson(Verdict(Recs, Clauses)))
=============================================================================
