SPECIFICATION Spec
CONSTANTS
  Seqs <- MCSeqsMixed
  Ks <- MCKs
  Pres <- MCPres
  MaxLen = 5
  Shard = 0
  NShards = 1
INVARIANT Correct
INVARIANT Sound
INVARIANT SliceInRange
INVARIANT LemmaRevCompInvariant
INVARIANT LemmaCaseInvariant
INVARIANT LemmaPieces
