CONSTANTS
  MaxN = 3
  MaxFail = 1
