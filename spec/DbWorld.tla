------------------------------- MODULE DbWorld -------------------------------
(***************************************************************************)
(* C18.  A reference database directory (genome file + signature file) and *)
(* the read-side commands and library calls that may be run against it,    *)
(* in any order, repeated, with failing commands interleaved.              *)
(*                                                                         *)
(*   files    abstract content version of the two database files (0 =      *)
(*            pristine) and the set of extra directory entries (journal,   *)
(*            WAL, lock files ...)                                          *)
(*   sess     the library's default session: open?, pending new / dirty /  *)
(*            deleted objects, changes already emitted to the connection   *)
(*                                                                         *)
(* SessionClass = "readonly" : flush is a no-op, commit raises (the code)  *)
(*              = "readonly-autocommit" : the same on a connection in      *)
(*                autocommit mode (negative control: statement-level       *)
(*                writes reach the file at once)                           *)
(*              = "plain"    : an ordinary session (negative control)      *)
(*              = "flush-unless-new-or-dirty" : a guard that forgets       *)
(*                pending deletions (second negative control)              *)
(* H5Mode = "r" (the code) or "r+" (negative control: opening the          *)
(* signature file for update may touch it).                                *)
(***************************************************************************)
EXTENDS DbSessionDef, Json

CONSTANTS SessionClass, H5Mode, MaxDepth, Record

VARIABLES gdb, gs, extra,    \* file versions / extra directory entries
          sess, hist
vars == <<gdb, gs, extra, sess, hist>>

Closed == [open |-> FALSE, pending |-> NoPending, emitted |-> FALSE, stmt |-> FALSE]

ReadOnly == SessionClass \in {"readonly", "readonly-autocommit"}
HasPending(s) == s.pending.new \/ s.pending.dirty \/ s.pending.deleted

\* does flush() emit the pending changes to the database connection?
FlushEmits(s) ==
  CASE SessionClass \in {"readonly", "readonly-autocommit"} -> FALSE
    [] SessionClass = "plain" -> HasPending(s)
    [] SessionClass = "flush-unless-new-or-dirty" -> HasPending(s) /\ ~s.pending.new /\ ~s.pending.dirty

DoFlush(s) == IF FlushEmits(s) THEN [s EXCEPT !.pending = NoPending, !.emitted = TRUE] ELSE s

Init == /\ gdb = 0 /\ gs = 0 /\ extra = {}
        /\ sess = Closed
        /\ hist = <<>>

\* outcome classes a step may show: "ok", "error", or either (depends on the ORM's transaction bookkeeping)
Step(c) ==
  /\ Len(hist) < MaxDepth
  /\ (c \in LibCmds \ (LoadCmds \cup {"lib_other_rw_reader", "lib_other_ro_reader", "lib_other_sigfile_rw"})) => sess.open
  /\ (c \in LoadCmds) => ~sess.open
  /\ LET s1 ==
       CASE c \in LoadCmds -> [open |-> TRUE, pending |-> NoPending, emitted |-> FALSE, stmt |-> FALSE]
         [] c \in StmtCmds -> [sess EXCEPT !.stmt = (SessionClass # "readonly-autocommit")]     \* goes into the open transaction
         [] c = "lib_edit" -> [sess EXCEPT !.pending.dirty = TRUE]
         [] c = "lib_add" -> [sess EXCEPT !.pending.new = TRUE]
         [] c = "lib_delete" -> [sess EXCEPT !.pending.deleted = TRUE]
         [] c \in {"lib_flush", "lib_query"} -> DoFlush(sess)                 \* queries autoflush
         [] c = "lib_commit" -> IF ReadOnly THEN sess ELSE [DoFlush(sess) EXCEPT !.emitted = FALSE, !.stmt = FALSE]
         [] c = "lib_begin_block" -> IF ReadOnly THEN sess                        \* begin() raises inside a transaction; otherwise the exit's commit raises
                                      ELSE [DoFlush(sess) EXCEPT !.emitted = FALSE, !.stmt = FALSE]   \* exit of `with session.begin()` commits what was emitted
         [] c = "lib_rollback" -> [sess EXCEPT !.pending = NoPending, !.emitted = FALSE, !.stmt = FALSE]
         [] c = "lib_close" -> Closed
         [] OTHER -> sess
         committed ==
           \/ (c = "lib_commit" /\ ~ReadOnly /\ (sess.emitted \/ sess.stmt \/ FlushEmits(sess)))
           \/ (c = "lib_begin_block" /\ ~ReadOnly /\ (sess.emitted \/ sess.stmt \/ FlushEmits(sess)))
           \/ (c \in StmtCmds /\ SessionClass = "readonly-autocommit")
         outcome ==
           CASE c \in FailingCli -> {"error"}
             [] c \in CliCmds -> {"ok"}
             [] c = "lib_commit" -> IF ReadOnly THEN {"error"} ELSE {"ok"}
             [] c = "lib_begin_block" -> {"ok", "error"}
             [] OTHER -> {"ok"}
     IN /\ sess' = (IF c = "lib_begin_block" THEN [s1 EXCEPT !.pending = NoPending] ELSE s1)
        /\ gdb' = IF committed THEN gdb + 1 ELSE gdb
        /\ gs' = IF H5Mode = "r+" /\ c \in {"lib_read_sigs", "cli_dist_usedb", "cli_siginfo_db"} THEN gs + 1 ELSE gs
        /\ extra' = IF sess'.stmt THEN {"journal"} ELSE {}
        /\ hist' = IF Record THEN Append(hist, [cmd |-> c, outcome |-> outcome, pending |-> sess'.pending, pending_any |-> (c = "lib_begin_block")])
                   ELSE hist

Next == \E c \in Cmds : Step(c)
Spec == Init /\ [][Next]_vars

\* ---------------------------------------------------------------- properties
\* the two files never change; the only extra directory entry ever seen is SQLite's rollback journal, and only while a
\* statement-level write sits in the (never committed) transaction
Immutable == gdb = 0 /\ gs = 0 /\ extra \subseteq {"journal"} /\ ("journal" \in extra => sess.stmt) /\ (~sess.open => extra = {})
NeverEmits == ~sess.emitted
\* generator mode
Emit == (Record /\ Len(hist) = MaxDepth) => PrintT(ToJson(hist))
=============================================================================
