SPECIFICATION Spec
CONSTANTS
  N = 3
  T = 2
  SharedTemps = FALSE
INVARIANT CellsCorrect
INVARIANT WriteOnce
