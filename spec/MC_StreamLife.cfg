CONSTANTS
  MaxN = 3
  MaxOps = 5
  Faithful = TRUE
INIT Init
NEXT Next
INVARIANT Prefix
INVARIANT NoDataAfterClose
INVARIANT ConsumerOutcome
INVARIANT NoLeak
INVARIANT FlagTruth
