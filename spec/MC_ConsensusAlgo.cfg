SPECIFICATION Spec
CONSTANTS
  N = 4
  MaxInput = 4
  Forked = TRUE
INVARIANT Correct
INVARIANT OthersCorrect
INVARIANT Comparable
