SPECIFICATION TSpec
CONSTANTS
  MaxFiles = 8
  MaxWorkers = 16
  MaxFailing = 8
  CollectMode = "index"
CONSTRAINT Progress
INVARIANT OrderKept
INVARIANT FailureIsLoud
INVARIANT ReturnOnlyWhenAllCollected
POSTCONDITION Verdict
CHECK_DEADLOCK FALSE
