------------------------------ MODULE BulkDist ------------------------------
(***************************************************************************)
(* C05.  The bulk distance computations of gambit.metric as state          *)
(* machines over abstract distance tokens: D(q, r) is the token <<q, r>>   *)
(* (the value the two-signature distance gives for query q and reference   *)
(* r), so "every cell holds the right pair's distance, written exactly     *)
(* once" is an invariant independent of arithmetic.                        *)
(*                                                                         *)
(*  matrix   jaccarddist_matrix: chunk_slices(nrefs, chunksize) (last      *)
(*           slice may overshoot; Python slicing clamps), idx =            *)
(*           ref_indices[slice], one jaccarddist_array call per query and  *)
(*           chunk writing out[i, slice], meter.increment(len(chunk))      *)
(*  pairwise jaccarddist_pairwise: row i against columns i+1..n-1,         *)
(*           mirrored (square) or appended at next_out (condensed)         *)
(***************************************************************************)
EXTENDS Base

CONSTANTS MaxQ, MaxR, MaxSel, MaxChunk

\* Python seq[start:stop] with clamping, 0-based start/stop, result as sequence
PySlice(s, start, stop) == SubSeq(s, Min2(start, Len(s)) + 1, Min2(stop, Len(s)))

\* chunk_slices(n, size): <<start, stop>> pairs; stop may exceed n
RECURSIVE ChunkSlices(_, _, _)
ChunkSlices(n, size, start) == IF start >= n THEN <<>> ELSE <<<<start, start + size>>>> \o ChunkSlices(n, size, start + size)

VARIABLES mode,       \* "matrix" | "square" | "flat"
          nq, sel,    \* number of queries; sel = sequence of reference ids actually compared (ref_indices or 0..n-1)
          chunks,     \* remaining chunk slices
          cur,        \* current chunk: [start, refs] or <<>>
          qi,         \* next query within the current chunk / next row in pairwise mode
          out,        \* matrix: out[i][j] \in {<<>>} \cup tokens ; flat: sequence
          writes,     \* number of times each cell was written
          meter, pc
vars == <<mode, nq, sel, chunks, cur, qi, out, writes, meter, pc>>

Unset == <<>>
D(q, r) == <<q, r>>                     \* distance token of query q vs reference id r
Sym(a, b) == IF a <= b THEN <<a, b>> ELSE <<b, a>>   \* symmetric token for all-pairs mode

Sels == UNION { [1..m -> 0..(MaxR - 1)] : m \in 0..MaxSel }     \* index selections with repeats, any order

InitMatrix ==
  /\ mode = "matrix"
  /\ nq \in 1..MaxQ
  /\ sel \in Sels
  /\ \E cs \in 0..MaxChunk :          \* 0 = chunksize None
       chunks = IF cs = 0 THEN <<<<0, Len(sel)>>>> ELSE ChunkSlices(Len(sel), cs, 0)
  /\ cur = <<>> /\ qi = 0
  /\ out = [i \in 1..nq |-> [j \in 1..Len(sel) |-> Unset]]
  /\ writes = [i \in 1..nq |-> [j \in 1..Len(sel) |-> 0]]
  /\ meter = 0 /\ pc = "chunk"

InitPairwise ==
  /\ mode \in {"square", "flat"}
  /\ nq = 0
  /\ sel \in Sels
  /\ chunks = <<>> /\ cur = <<>> /\ qi = 0
  /\ LET n == Len(sel) IN
       IF mode = "square"
       THEN /\ out = [i \in 1..n |-> [j \in 1..n |-> IF i = j THEN <<"zero">> ELSE Unset]]    \* np.fill_diagonal(out, 0)
            /\ writes = [i \in 1..n |-> [j \in 1..n |-> 0]]
       ELSE /\ out = [p \in 1..((n * (n - 1)) \div 2) |-> Unset]
            /\ writes = [p \in 1..((n * (n - 1)) \div 2) |-> 0]
  /\ meter = 0 /\ pc = "row"

Init == InitMatrix \/ InitPairwise

\* ---------------------------------------------------------------- matrix
TakeChunk ==
  /\ mode = "matrix" /\ pc = "chunk"
  /\ IF chunks = <<>> THEN pc' = "done" /\ UNCHANGED <<chunks, cur, qi>>
     ELSE LET sl == Head(chunks) IN
          /\ cur' = [start |-> sl[1], refs |-> PySlice(sel, sl[1], sl[2])]     \* refs[ref_indices[slice]]
          /\ chunks' = Tail(chunks) /\ qi' = 1 /\ pc' = "query"
  /\ UNCHANGED <<mode, nq, sel, out, writes, meter>>

ArrayCall ==
  /\ mode = "matrix" /\ pc = "query"
  /\ IF qi > nq THEN pc' = "chunk" /\ UNCHANGED <<qi, out, writes, meter>>
     ELSE /\ out' = [out EXCEPT ![qi] = [j \in 1..Len(sel) |->
                        IF j > cur.start /\ j <= cur.start + Len(cur.refs) THEN D(qi, cur.refs[j - cur.start]) ELSE @[j]]]
          /\ writes' = [writes EXCEPT ![qi] = [j \in 1..Len(sel) |->
                        IF j > cur.start /\ j <= cur.start + Len(cur.refs) THEN @[j] + 1 ELSE @[j]]]
          /\ meter' = meter + Len(cur.refs)
          /\ qi' = qi + 1 /\ UNCHANGED pc
  /\ UNCHANGED <<mode, nq, sel, chunks, cur>>

\* ---------------------------------------------------------------- pairwise
FlatPos(i, j, n) == n * i - (i * (i + 1)) \div 2 + (j - i - 1)      \* 0-based condensed index of pair i < j

Row ==
  /\ mode \in {"square", "flat"} /\ pc = "row"
  /\ LET n == Len(sel) IN
     IF qi >= n - 1 THEN pc' = "done" /\ UNCHANGED <<qi, out, writes, meter>>
     ELSE LET cols == (qi + 1)..(n - 1)         \* 0-based column indices of row qi
              nextOut == meter                   \* in flat mode next_out == number of pairs done so far
          IN /\ IF mode = "square"
                THEN /\ out' = [r \in 1..n |-> [c \in 1..n |->
                                  IF r = qi + 1 /\ (c - 1) \in cols THEN Sym(sel[qi + 1], sel[c])           \* row
                                  ELSE IF c = qi + 1 /\ (r - 1) \in cols THEN Sym(sel[qi + 1], sel[r])      \* mirror
                                  ELSE out[r][c]]]
                     /\ writes' = [r \in 1..n |-> [c \in 1..n |->
                                  IF (r = qi + 1 /\ (c - 1) \in cols) \/ (c = qi + 1 /\ (r - 1) \in cols)
                                  THEN writes[r][c] + 1 ELSE writes[r][c]]]
                ELSE /\ out' = [p \in DOMAIN out |->
                                  IF p > nextOut /\ p <= nextOut + (n - qi - 1) THEN Sym(sel[qi + 1], sel[qi + 1 + (p - nextOut)])
                                  ELSE out[p]]
                     /\ writes' = [p \in DOMAIN out |-> IF p > nextOut /\ p <= nextOut + (n - qi - 1) THEN writes[p] + 1 ELSE writes[p]]
             /\ meter' = meter + (n - qi - 1)
             /\ qi' = qi + 1 /\ UNCHANGED pc
  /\ UNCHANGED <<mode, nq, sel, chunks, cur>>

Next == TakeChunk \/ ArrayCall \/ Row
Spec == Init /\ [][Next]_vars

\* ---------------------------------------------------------------- properties
MatrixCorrect ==
  (mode = "matrix" /\ pc = "done") =>
     /\ \A i \in 1..nq : \A j \in 1..Len(sel) : out[i][j] = D(i, sel[j]) /\ writes[i][j] = 1
     /\ meter = nq * Len(sel)

SquareCorrect ==
  (mode = "square" /\ pc = "done") =>
     LET n == Len(sel) IN
     /\ \A i, j \in 1..n : IF i = j THEN out[i][j] = <<"zero">> /\ writes[i][j] = 0
                           ELSE out[i][j] = Sym(sel[i], sel[j]) /\ writes[i][j] = 1
     /\ \A i, j \in 1..n : out[i][j] = out[j][i]
     /\ meter = (n * (n - 1)) \div 2

FlatCorrect ==
  (mode = "flat" /\ pc = "done") =>
     LET n == Len(sel) IN
     /\ \A i, j \in 0..(n - 1) : i < j => out[FlatPos(i, j, n) + 1] = Sym(sel[i + 1], sel[j + 1])
     /\ \A p \in DOMAIN out : writes[p] = 1
     /\ meter = (n * (n - 1)) \div 2

\* no cell is ever overwritten with a different value, and the meter never exceeds its total
Monotone == meter <= (IF mode = "matrix" THEN nq * Len(sel) ELSE (Len(sel) * (Len(sel) - 1)) \div 2)
=============================================================================
