----------------------------- MODULE Judge_C16 -----------------------------
(* Judges the CSV written by `gambit dist` (property C16): raw text parsed by Csv!CsvParse; labels by Labels!Label. *)
EXTENDS World, Labels, Csv, Judge

LabelOf(src) == IF src.kind = "path" THEN Label(src.v) ELSE src.v
SigP(r, contigs) == SigDefAll(contigs, r.k, r.pre)

ClDistCsv(r) ==
  LET rows == CsvParse("CRLF", r.text)
      wellformed == rows # <<"malformed">> /\ Len(rows) = Len(r.q) + 1
      ql == [i \in DOMAIN r.q |-> LabelOf(r.q[i].label)]
      rl == [j \in DOMAIN r.r |-> LabelOf(r.r[j].label)]
      qs == [i \in DOMAIN r.q |-> SigP(r, r.q[i].contigs)]
      rs == [j \in DOMAIN r.r |-> SigP(r, r.r[j].contigs)]
  IN
  << <<"command-succeeds", r.rc = 0>>,
     <<"well-formed-csv-one-row-per-query", r.rc = 0 => wellformed>>,
     <<"header-lists-reference-labels", (r.rc = 0 /\ wellformed) => rows[1] = <<<<>>>> \o rl>>,
     <<"rows-start-with-query-labels-in-order", (r.rc = 0 /\ wellformed) =>
          \A i \in DOMAIN r.q : Len(rows[i + 1]) = Len(r.r) + 1 /\ rows[i + 1][1] = ql[i]>>,
     <<"cells-are-the-distances-rounded-to-four-decimals", (r.rc = 0 /\ wellformed) =>
          \A i \in DOMAIN r.q : Len(rows[i + 1]) = Len(r.r) + 1 =>
             \A j \in DOMAIN r.r : CellOK(ParseD4(rows[i + 1][j + 1]), Dist(qs[i], rs[j]))>>,
     <<"square-is-symmetric-with-zero-diagonal", (r.rc = 0 /\ wellformed /\ r.square) =>
          \A i \in DOMAIN r.q : Len(rows[i + 1]) = Len(r.q) + 1 =>
             /\ rows[i + 1][i + 1] = <<48, 46, 48, 48, 48, 48>>
             /\ \A j \in DOMAIN r.q : rows[i + 1][j + 1] = rows[j + 1][i + 1]>>,
     <<"square-equals-same-genomes-on-both-sides", (r.rc = 0 /\ r.square) => r.text = r.text_both_sides>> >>

Clauses(r) == ClDistCsv(r)
ASSUME PrintT(ToJson(Verdict(Recs, Clauses)))
=============================================================================
