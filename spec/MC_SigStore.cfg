SPECIFICATION Spec
CONSTANTS
  MaxSigs = 3
  EvictionPossible = FALSE
  ExplicitFlush = FALSE
INVARIANT CrashSafe
INVARIANT Durable
