SPECIFICATION Spec
CONSTANTS
  MaxQ = 2
  MaxR = 4
  MaxSel = 3
  MaxChunk = 4
INVARIANT MatrixCorrect
INVARIANT SquareCorrect
INVARIANT FlatCorrect
INVARIANT Monotone
