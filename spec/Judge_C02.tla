----------------------------- MODULE Judge_C02 -----------------------------
(* Judges jaccarddist / jaccard call records (property C02): a, b are rank sequences; d*, j* are float32 fields. *)
EXTENDS Jaccard, Judge

IsF32(x) == x.bad = ""
Val(x) == [z |-> x.z, e |-> x.e, m |-> x.m]

Clauses(r) ==
  \* op = "iv": the two sets are given as unions of intervals (sets too large to ship element by element)
  LET D == IF r.op = "iv" THEN Dist32Iv(r.a, r.b) ELSE Dist32(Range(r.a), Range(r.b)) IN
  << <<"no-error", r.ok>>,
     <<"distances-are-float32-values", r.ok => IsF32(r.dab) /\ IsF32(r.dba)>>,
     <<"distance-correctly-rounded", r.ok => Val(r.dab) = D>>,
     <<"distance-other-argument-order", r.ok => Val(r.dba) = D>>,
     <<"jaccard-is-one-minus-distance", r.ok => /\ r.jab.bad = "" /\ IsOneMinus(<<r.jab.hi, r.jab.lo>>, D)
                                                  /\ r.jba.bad = "" /\ IsOneMinus(<<r.jba.hi, r.jba.lo>>, D)>> >>

ASSUME PrintT(ToJson(Verdict(Recs, Clauses)))
=============================================================================
