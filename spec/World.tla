-------------------------------- MODULE World --------------------------------
(***************************************************************************)
(* The system as a whole, for the command-level properties (C04, C08, C11,  *)
(* C14, C16, C17, C18): a reference database (taxonomy forest with         *)
(* float32 thresholds, reference genomes as lists of contigs) and the      *)
(* composition                                                             *)
(*   contigs --KmerSig--> signature --Jaccard--> float32 distance          *)
(*           --Classify--> result item                                     *)
(* Everything is recomputed by TLC from the nucleotide sequences.          *)
(* A float32 in [0,1] is represented by its IEEE bit pattern (an integer   *)
(* below 2^31; the order of the patterns is the order of the values), so   *)
(* Classify's integer comparisons apply directly.                          *)
(* db = [k, pre, parent, thr, report, gt, refs]                            *)
(***************************************************************************)
EXTENDS KmerSig, Jaccard, Classify

BitsOf(f) == IF f.z THEN 0 ELSE (f.e + 127) * 8388608 + (f.m - 8388608)

Sig(db, contigs) == SigDefAll(contigs, db.k, db.pre)
DistBits(A, B) == BitsOf(Dist32(A, B))

\* distances of a query genome to every reference genome, in database order
RowDists(db, contigs) ==
  LET q == Sig(db, contigs) IN [g \in DOMAIN db.refs |-> DistBits(q, Sig(db, db.refs[g]))]

\* default-mode result item, as plain data (taxon / genome numbers, 0 = none)
Item(db, d) ==
  LET cgen == FirstArgMin(d)
      md == d[cgen]
      t == db.gt[cgen]
      pred == MatchingTaxon(db.parent, db.thr, t, md)
  IN [closest_g |-> cgen, closest_d |-> md, pred |-> pred,
      report |-> Reportable(db.parent, db.report, pred),
      next |-> NextTaxon(db.parent, db.thr, t, md)]

\* strict-mode prediction
StrictPred(db, d) == ConsDef(db.parent, MatchedSet(db.parent, db.thr, db.gt, d))

\* four-decimal rounding of a distance n/d as printed by the dist command: ten-thousandths, ties to even
Round4(q) ==
  LET n == q[1] * 10000  d == q[2]  fl == n \div d  r == n % d
  IN IF 2 * r < d THEN fl ELSE IF 2 * r > d THEN fl + 1 ELSE IF fl % 2 = 0 THEN fl ELSE fl + 1

\* a printed four-decimal cell c (ten-thousandths) is acceptable for the exact distance q = <<n, u>>: it is the correctly
\* rounded value; within 1/80 of a unit of an exact tie (where the float32 result decides) either neighbour is accepted
CellOK(c, q) ==
  LET n == q[1] * 10000  u == q[2]  fl == n \div u  r == n % u
      gap == IF 2 * r >= u THEN 2 * r - u ELSE u - 2 * r
  IN IF gap * 80 < u /\ gap # 0 THEN c \in {fl, fl + 1} ELSE c = Round4(q)
=============================================================================
