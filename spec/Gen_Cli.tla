-------------------------------- MODULE Gen_Cli --------------------------------
(* Generator: the full decision table of `dist` and `query` parameter reconciliation with the outcome the definition
   requires.  Parameter tokens: "DEF" = built-in default, "K1" = the database's, "K2" (k differs), "K3" (prefix differs),
   "K4" (prefix = reverse complement of K3's); a second table uses "K5" / "K6" (prefixes longer than 8 nt sharing their first 8). *)
EXTENDS Cli, Json, IOUtils, SequencesExt, FiniteSetsExt
\* the parameter set of the database the `query` rows run against: the first non-default one ("K1" in the main table, "K5" in the
\* long-prefix table)
QueryDb == IF "K1" \in Params THEN "K1" ELSE IF "K5" \in Params THEN "K5" ELSE "K7"
Enc(o) == IF o.ok THEN [ok |-> TRUE, ks |-> o.ks] ELSE [ok |-> FALSE, ks |-> ""]
EncE(e) == IF e = None THEN "none" ELSE IF e = Partial THEN "partial" ELSE IF e = Invalid THEN "invalid" ELSE The(e)
DistRows == { [cmd |-> "dist", explicit |-> EncE(e), q |-> q, r |-> r, expect |-> Enc(DistDef(e, q, r))] :
                e \in Explicits, q \in QSources, r \in RSources }
QueryRows == { [cmd |-> "query", explicit |-> "none", q |-> q, r |-> [kind |-> "db", ks |-> QueryDb],
                expect |-> Enc(QueryDef(q, [kind |-> "db", ks |-> QueryDb]))] : q \in QSources }
ASSUME ndJsonSerialize(IOEnv.OUT_FILE, SetToSeq(DistRows \cup QueryRows))
=============================================================================
