----------------------------- MODULE Judge_C15 -----------------------------
(* Judges records of the six reported distances of a triple of k-mer sets, the widened-dtype variants and the
   augmented pair against the metric axioms (property C15).  Axioms are evaluated on the REPORTED values. *)
EXTENDS Jaccard, Judge

WF(x) == /\ x.bad = ""
         /\ (x.z \/ (x.e \in -24..0 /\ x.m \in 8388608..16777215 /\ (x.e = 0 => x.m = 8388608)))
Val(x) == [z |-> x.z, e |-> x.e, m |-> x.m]

Clauses(r) ==
  LET A == Range(r.a)  B == Range(r.b)  C == Range(r.c)
      names == <<"ab", "ba", "ac", "ca", "bc", "cb", "wab", "wba", "aug", "pab", "pac", "mab", "mac", "maa", "mbc", "qab", "qac", "lab", "lac", "lbc", "lbb", "saa", "oab", "oac", "obc">>
      ok == r.ok /\ \A i \in DOMAIN names : WF(r.d[names[i]])
      d(n) == Val(r.d[n])
      X == Range(r.ax)  Y == Range(r.bx)           \* A + {x}, B + {x} with x in neither
  IN
  << <<"no-error-and-values-in-[0,1]", ok>>,
     <<"zero-iff-equal", ok => /\ (d("ab") = F32Zero) = (A = B) /\ (d("ac") = F32Zero) = (A = C)
                               /\ (d("bc") = F32Zero) = (B = C)>>,
     <<"one-iff-disjoint-nonempty", ok => /\ (d("ab") = F32One) = (A \cap B = {} /\ A \cup B # {})
                                          /\ (d("ac") = F32One) = (A \cap C = {} /\ A \cup C # {})
                                          /\ (d("bc") = F32One) = (B \cap C = {} /\ B \cup C # {})>>,
     <<"bit-symmetric", ok => d("ab") = d("ba") /\ d("ac") = d("ca") /\ d("bc") = d("cb")>>,
     <<"triangle-with-slack-2^-22", ok =>
          /\ FixLeq(Fix(d("ac")), FixAdd(FixAdd(Fix(d("ab")), Fix(d("bc"))), Slack22))
          /\ FixLeq(Fix(d("ab")), FixAdd(FixAdd(Fix(d("ac")), Fix(d("cb"))), Slack22))
          /\ FixLeq(Fix(d("bc")), FixAdd(FixAdd(Fix(d("ba")), Fix(d("ac"))), Slack22))>>,
     <<"width-independent", ok => d("wab") = d("ab") /\ d("wba") = d("ba") /\ d("qab") = d("ab") /\ d("qac") = d("ac")>>,
     <<"one-against-many-path-agrees", ok => d("pab") = d("ab") /\ d("pac") = d("ac")>>,
     <<"index-selected-bulk-paths-agree", ok => d("mab") = d("ab") /\ d("mac") = d("ac") /\ d("maa") = F32Zero /\ d("mbc") = d("bc")>>,
     <<"list-of-mixed-types-matrix-path-agrees", ok => d("lab") = d("ab") /\ d("lac") = d("ac") /\ d("lbc") = d("bc") /\ d("lbb") = F32Zero>>,
     <<"caller-supplied-result-arrays-of-other-layouts-hold-the-table", ok => d("oab") = d("ab") /\ d("oac") = d("ac") /\ d("obc") = d("bc")>>,
     <<"single-signature-all-pairs-table-is-zero", ok => d("saa") = F32Zero>>,
     <<"augmenting-both-strictly-decreases", ok => IF A = B THEN d("aug") = F32Zero ELSE F32Less(d("aug"), d("ab"))>>,
     <<"equals-correctly-rounded-ratio", ok => /\ d("ab") = Dist32(A, B) /\ d("ac") = Dist32(A, C) /\ d("bc") = Dist32(B, C)
                                               /\ d("aug") = Dist32(X, Y)>>,
     <<"augmented-sets-wellformed", X = A \cup (X \ A) /\ Cardinality(X \ A) = 1 /\ X \ A = Y \ B /\ (X \ A) \cap (A \cup B) = {}>> >>

ASSUME PrintT(ToJson(Verdict(Recs, Clauses)))
=============================================================================
