SPECIFICATION Spec
CONSTANTS
  MaxFiles = 4
  MaxWorkers = 2
  MaxFailing = 1
  CollectMode = "index"
INVARIANT OrderKept
INVARIANT FailureIsLoud
INVARIANT ReturnOnlyWhenAllCollected
INVARIANT CollectedCompleted
