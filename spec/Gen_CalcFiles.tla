---------------------------- MODULE Gen_CalcFiles ----------------------------
(* Generator: every completion order x failing set for n files, with the outcome the specification requires.
   Serialised to IOEnv.OUT_FILE; the harness forces each order on the real code with a controlled executor. *)
EXTENDS Base, Json, IOUtils, SequencesExt, FiniteSetsExt
CONSTANTS MaxN, MaxFail
Perms(S) == { p \in [1..Cardinality(S) -> S] : \A a, b \in DOMAIN p : a # b => p[a] # p[b] }
Scen == UNION { { [n |-> nn, order |-> p, failing |-> SetToSeq(F),
                   expect |-> IF F = {} THEN [outcome |-> "returned", sigs |-> [i \in 1..nn |-> i]]
                              ELSE [outcome |-> "raised", sigs |-> <<>>]] :
                  p \in Perms(1..nn), F \in { G \in SUBSET (1..nn) : Cardinality(G) <= MaxFail } } : nn \in 1..MaxN }
ASSUME ndJsonSerialize(IOEnv.OUT_FILE, SetToSeq(Scen))
=============================================================================
