------------------------------- MODULE OmpLoop -------------------------------
(***************************************************************************)
(* C05.  The parallel loop of _jaccarddist_parallel:                       *)
(*     for i in prange(N, nogil=True, schedule='dynamic'):                 *)
(*         begin = ref_bounds[i]; end = ref_bounds[i+1]                    *)
(*         out[i] = c_jaccarddist(query, ref_coords[begin:end])            *)
(* T threads take iterations from a shared counter; begin/end are private  *)
(* to each thread (Cython makes variables assigned in a prange body        *)
(* lastprivate).  Every interleaving of grab / read bounds / compute /     *)
(* write is explored.  SharedTemps = TRUE is the negative control in which *)
(* begin/end are shared: TLC then finds a cell computed from another       *)
(* iteration's bounds.                                                     *)
(***************************************************************************)
EXTENDS Base

CONSTANTS N, T, SharedTemps

VARIABLES next,     \* shared iteration counter (dynamic schedule)
          th,       \* per thread: [pc, i, b, e, val]
          sb, se,   \* shared begin / end (used only when SharedTemps)
          out, writes
vars == <<next, th, sb, se, out, writes>>

Bounds == [i \in 0..N |-> i]            \* ref_bounds; signature i occupies [i, i+1)
Val(b, e) == <<b, e>>                   \* token of the distance computed from ref_coords[b:e]

Init ==
  /\ next = 0
  /\ th = [t \in 1..T |-> [pc |-> "grab", i |-> -1, b |-> -1, e |-> -1, val |-> <<>>]]
  /\ sb = -1 /\ se = -1
  /\ out = [i \in 0..(N - 1) |-> <<>>]
  /\ writes = [i \in 0..(N - 1) |-> 0]

Grab(t) ==
  /\ th[t].pc = "grab"
  /\ IF next < N THEN th' = [th EXCEPT ![t].pc = "begin", ![t].i = next] /\ next' = next + 1
     ELSE th' = [th EXCEPT ![t].pc = "exit"] /\ UNCHANGED next
  /\ UNCHANGED <<sb, se, out, writes>>

ReadBegin(t) ==
  /\ th[t].pc = "begin"
  /\ IF SharedTemps THEN sb' = Bounds[th[t].i] /\ th' = [th EXCEPT ![t].pc = "end"]
     ELSE th' = [th EXCEPT ![t].pc = "end", ![t].b = Bounds[th[t].i]] /\ UNCHANGED sb
  /\ UNCHANGED <<next, se, out, writes>>

ReadEnd(t) ==
  /\ th[t].pc = "end"
  /\ IF SharedTemps THEN se' = Bounds[th[t].i + 1] /\ th' = [th EXCEPT ![t].pc = "compute"]
     ELSE th' = [th EXCEPT ![t].pc = "compute", ![t].e = Bounds[th[t].i + 1]] /\ UNCHANGED se
  /\ UNCHANGED <<next, sb, out, writes>>

Compute(t) ==
  /\ th[t].pc = "compute"
  /\ th' = [th EXCEPT ![t].pc = "write", ![t].val = IF SharedTemps THEN Val(sb, se) ELSE Val(th[t].b, th[t].e)]
  /\ UNCHANGED <<next, sb, se, out, writes>>

Write(t) ==
  /\ th[t].pc = "write"
  /\ out' = [out EXCEPT ![th[t].i] = th[t].val]
  /\ writes' = [writes EXCEPT ![th[t].i] = @ + 1]
  /\ th' = [th EXCEPT ![t].pc = "grab"]
  /\ UNCHANGED <<next, sb, se>>

GrabAny == \E t \in 1..T : Grab(t)
ReadBeginAny == \E t \in 1..T : ReadBegin(t)
ReadEndAny == \E t \in 1..T : ReadEnd(t)
ComputeAny == \E t \in 1..T : Compute(t)
WriteAny == \E t \in 1..T : Write(t)
Next == GrabAny \/ ReadBeginAny \/ ReadEndAny \/ ComputeAny \/ WriteAny
Spec == Init /\ [][Next]_vars

Joined == \A t \in 1..T : th[t].pc = "exit"
\* at the join every cell holds the value computed from ITS OWN bounds and was written exactly once
CellsCorrect == Joined => \A i \in 0..(N - 1) : out[i] = Val(Bounds[i], Bounds[i + 1]) /\ writes[i] = 1
\* never two writes to one cell, never a wrong value at any time
WriteOnce == \A i \in 0..(N - 1) : writes[i] <= 1 /\ (out[i] # <<>> => out[i] = Val(Bounds[i], Bounds[i + 1]))
=============================================================================
