------------------------------- MODULE Base -------------------------------
(***************************************************************************)
(* Shared vocabulary of the GAMBIT specification.                          *)
(*                                                                         *)
(*  - Option values      None == <<>>, Some(v) == <<v>>                    *)
(*  - digit tuples       lexicographic order (k-mer indices are tuples of  *)
(*                       base-4 digits, most significant first, so that    *)
(*                       k = 32 needs no 64-bit integers)                  *)
(*  - Float32            exact model of IEEE-754 single precision for the  *)
(*                       quotient of two naturals: a float is [z,e,m] with *)
(*                       value m * 2^(e-23), 2^23 <= m < 2^24              *)
(*  - Python slice.indices / range length                                  *)
(***************************************************************************)
EXTENDS Integers, Sequences, FiniteSets, TLC

None == <<>>
Some(v) == <<v>>
IsNone(o) == o = <<>>
IsSome(o) == Len(o) = 1
The(o) == o[1]

Max2(a, b) == IF a >= b THEN a ELSE b
Min2(a, b) == IF a <= b THEN a ELSE b

Range(f) == { f[i] : i \in DOMAIN f }

\* Python s[lo:hi] on a 0-based sequence (no clamping: callers pass 0 <= lo <= hi <= Len(s))
Sub(s, lo, hi) == [i \in 1..(hi - lo) |-> s[lo + i]]

Rev(s) == [i \in 1..Len(s) |-> s[Len(s) + 1 - i]]

\* ------------------------------------------------------------------ digit tuples
\* strict lexicographic order on tuples of naturals of equal length
LexLess(a, b) ==
  \E i \in 1..Len(a) : a[i] < b[i] /\ \A j \in 1..(i - 1) : a[j] = b[j]

StrictlyIncreasing(s) == \A i \in 1..(Len(s) - 1) : LexLess(s[i], s[i + 1])

\* the unique strictly increasing sequence enumerating a finite set of equal-length digit tuples
RECURSIVE SortTuples(_)
SortTuples(S) ==
  IF S = {} THEN <<>>
  ELSE LET mn == CHOOSE x \in S : \A y \in S : x = y \/ LexLess(x, y)
       IN <<mn>> \o SortTuples(S \ {mn})

\* positional value of a digit tuple in base b (only for values < 2^31)
RECURSIVE PosVal(_, _)
PosVal(d, b) == IF d = <<>> THEN 0 ELSE PosVal(SubSeq(d, 1, Len(d) - 1), b) * b + d[Len(d)]

\* ------------------------------------------------------------------ Float32 quotient
\* F32Div(n, d): the IEEE-754 binary32 value nearest to n/d (ties to even), for 0 < n <= d < 2^24,
\* computed by binary long division using only remainders < 2*d.
\* Result [z |-> FALSE, e |-> unbiased exponent, m |-> 24-bit significand]; value = m * 2^(e-23).
RECURSIVE F32Norm(_, _, _), F32Bits(_, _, _, _)
F32Norm(n, d, s) == IF n >= d THEN <<n, s>> ELSE F32Norm(2 * n, d, s + 1)
F32Bits(r, d, c, a) ==
  IF c = 0 THEN <<a, r>>
  ELSE IF 2 * r >= d THEN F32Bits(2 * r - d, d, c - 1, 2 * a + 1)
       ELSE F32Bits(2 * r, d, c - 1, 2 * a)

F32Div(n, d) ==
  LET nm == F32Norm(n, d, 0)             \* nm[1] = n * 2^s in [d, 2d)
      b  == F32Bits(nm[1] - d, d, 23, 1) \* 24 quotient bits (leading 1 implicit), remainder
      m  == b[1]
      r  == b[2]
      up == (2 * r > d) \/ (2 * r = d /\ m % 2 = 1)
      m2 == IF up THEN m + 1 ELSE m
  IN IF m2 = 16777216 THEN [z |-> FALSE, e |-> 1 - nm[2], m |-> 8388608]
     ELSE [z |-> FALSE, e |-> 0 - nm[2], m |-> m2]

F32Zero == [z |-> TRUE, e |-> 0, m |-> 0]
F32One  == [z |-> FALSE, e |-> 0, m |-> 8388608]

\* float32 nearest to n/d for 0 <= n <= d, d > 0
F32Quot(n, d) == IF n = 0 THEN F32Zero ELSE F32Div(n, d)

\* total order on the float32 values in [0, 1] represented as above
F32Less(a, b) ==
  IF a.z THEN ~b.z
  ELSE IF b.z THEN FALSE
  ELSE a.e < b.e \/ (a.e = b.e /\ a.m < b.m)
F32Leq(a, b) == a = b \/ F32Less(a, b)

\* ------------------------------------------------------------------ Python slices
\* a, b, s are None or Some(integer); n = sequence length; step # 0
SliceIndices(a, b, s, n) ==
  LET step == IF s = <<>> THEN 1 ELSE s[1]
      lo == IF step > 0 THEN 0 ELSE -1
      hi == IF step > 0 THEN n ELSE n - 1
      Clamp(v) == LET w == IF v < 0 THEN v + n ELSE v
                  IN IF w < lo THEN lo ELSE IF w > hi THEN hi ELSE w
      start == IF a = <<>> THEN (IF step > 0 THEN 0 ELSE n - 1) ELSE Clamp(a[1])
      stop  == IF b = <<>> THEN (IF step > 0 THEN n ELSE -1) ELSE Clamp(b[1])
  IN <<start, stop, step>>

RangeLen(st, sp, step) ==
  IF step > 0 THEN (IF sp > st THEN (sp - st + step - 1) \div step ELSE 0)
  ELSE (IF sp < st THEN (st - sp - step - 1) \div (0 - step) ELSE 0)

\* 0-based positions selected by seq[a:b:s]
SliceSelect(a, b, s, n) ==
  LET t == SliceIndices(a, b, s, n)
  IN [i \in 1..RangeLen(t[1], t[2], t[3]) |-> t[1] + (i - 1) * t[3]]
=============================================================================
