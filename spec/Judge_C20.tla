----------------------------- MODULE Judge_C20 -----------------------------
(* Judges indexing, equality and mutation records of signature collections (property C20). *)
EXTENDS SigClauses

Clauses(r) == CASE r.op = "index" -> ClIndex(r) [] r.op = "eq" -> ClEq(r) [] r.op = "mut" -> ClMut(r) [] r.op = "alias" -> ClAlias(r)

ASSUME PrintT(ToJson(Verdict(Recs, Clauses)))
=============================================================================
