------------------------------ MODULE SigIndex ------------------------------
(***************************************************************************)
(* C20 / C12.  Signature collections as immutable sequences with           *)
(* NumPy-style indexing, the list-backed collection's mutations, and       *)
(* equality by content.  A collection is [items, k, prefix, dtype]; items   *)
(* is a sequence of signatures (each a sequence of naturals).              *)
(*                                                                         *)
(* An index expression is one of                                           *)
(*   [t |-> "int",   v |-> i]                                              *)
(*   [t |-> "slice", a, b, s]        a, b, s \in Option(Int)               *)
(*   [t |-> "ints",  v |-> <<i1, ..., im>>]                                *)
(*   [t |-> "mask",  v |-> <<b1, ..., bm>>]                                *)
(*   [t |-> "bad",   what |-> STRING]    an ill-typed index                *)
(* Select returns [res |-> "item", pos], [res |-> "coll", pos |-> <<...>>]  *)
(* (0-based original positions) or [res |-> "error", cls \subseteq ...].   *)
(***************************************************************************)
EXTENDS Base

IndexErrors == {"IndexError", "TypeError"}

Norm(i, n) == IF i < 0 THEN i + n ELSE i
InRange(i, n) == 0 - n <= i /\ i < n

TruePositions(m) == \* 0-based positions of TRUE in a boolean sequence, ascending
  LET F[k \in 0..Len(m)] == IF k = 0 THEN <<>> ELSE IF m[k] THEN Append(F[k - 1], k - 1) ELSE F[k - 1]
  IN F[Len(m)]

Select(n, ix) ==
  CASE ix.t = "int" ->
         IF InRange(ix.v, n) THEN [res |-> "item", pos |-> <<Norm(ix.v, n)>>]
         ELSE [res |-> "error", cls |-> {"IndexError"}]
    [] ix.t = "slice" ->
         IF ix.s = <<0>> THEN [res |-> "error", cls |-> {"ValueError"}]
         ELSE [res |-> "coll", pos |-> SliceSelect(ix.a, ix.b, ix.s, n)]
    [] ix.t = "ints" ->
         IF \A j \in DOMAIN ix.v : InRange(ix.v[j], n)
         THEN [res |-> "coll", pos |-> [j \in DOMAIN ix.v |-> Norm(ix.v[j], n)]]
         ELSE [res |-> "error", cls |-> {"IndexError"}]
    [] ix.t = "mask" ->
         IF Len(ix.v) = n THEN [res |-> "coll", pos |-> TruePositions(ix.v)]
         ELSE [res |-> "error", cls |-> {"IndexError"}]
    [] ix.t = "bad" -> [res |-> "error", cls |-> IndexErrors]

\* items selected by a position sequence
Take(items, pos) == [j \in DOMAIN pos |-> items[pos[j] + 1]]

\* representation invariant of a concatenated collection: bounds = prefix sums of the item lengths
RECURSIVE PrefixSums(_)
PrefixSums(items) ==
  IF items = <<>> THEN <<0>>
  ELSE LET p == PrefixSums(SubSeq(items, 1, Len(items) - 1)) IN Append(p, p[Len(p)] + Len(items[Len(items)]))

\* equality of collections: same k-mer parameters and the same signatures (integer width is irrelevant)
CollEq(c1, c2) == c1.k = c2.k /\ c1.prefix = c2.prefix /\ c1.items = c2.items

\* ------------------------------------------------------------------ list mutations (Python list semantics)
\* An operation is a record with field op; Effect returns [lst, err] (err = "" on success, lst unchanged on error).
InsertAt(l, p, v) == SubSeq(l, 1, p) \o <<v>> \o SubSeq(l, p + 1, Len(l))      \* p = 0-based position
RemoveAt(l, p) == SubSeq(l, 1, p) \o SubSeq(l, p + 2, Len(l))
ClampIns(i, n) == IF i < 0 THEN Max2(0, i + n) ELSE Min2(i, n)

Effect(l, o) ==
  LET n == Len(l) IN
  CASE o.op = "setitem" -> IF InRange(o.i, n) THEN [lst |-> [l EXCEPT ![Norm(o.i, n) + 1] = o.v], err |-> ""]
                           ELSE [lst |-> l, err |-> "IndexError"]
    [] o.op = "delitem" -> IF InRange(o.i, n) THEN [lst |-> RemoveAt(l, Norm(o.i, n)), err |-> ""]
                           ELSE [lst |-> l, err |-> "IndexError"]
    [] o.op = "insert"  -> [lst |-> InsertAt(l, ClampIns(o.i, n), o.v), err |-> ""]
    [] o.op = "append"  -> [lst |-> Append(l, o.v), err |-> ""]
    [] o.op = "extend"  -> [lst |-> l \o o.vs, err |-> ""]
    [] o.op = "pop"     -> IF InRange(o.i, n) THEN [lst |-> RemoveAt(l, Norm(o.i, n)), err |-> ""]
                           ELSE [lst |-> l, err |-> "IndexError"]
    [] o.op = "reverse" -> [lst |-> Rev(l), err |-> ""]
    [] o.op = "clear"   -> [lst |-> <<>>, err |-> ""]
    [] o.op = "delslice" ->
         IF o.s = <<0>> THEN [lst |-> l, err |-> "ValueError"]
         ELSE LET sel == Range(SliceSelect(o.a, o.b, o.s, n))
                  keep == SelectSeq([p \in 1..n |-> p - 1], LAMBDA p : p \notin sel)
              IN [lst |-> Take(l, keep), err |-> ""]
    [] o.op = "setslice" ->
         IF o.s = <<0>> THEN [lst |-> l, err |-> "ValueError"]
         ELSE LET t == SliceIndices(o.a, o.b, o.s, n)
                  pos == SliceSelect(o.a, o.b, o.s, n)
              IN IF t[3] = 1
                 THEN LET st == t[1]  sp == Max2(t[1], t[2])                  \* contiguous: any length may be assigned
                      IN [lst |-> SubSeq(l, 1, st) \o o.vs \o SubSeq(l, sp + 1, n), err |-> ""]
                 ELSE IF Len(o.vs) # Len(pos) THEN [lst |-> l, err |-> "ValueError"]
                      ELSE [lst |-> [p \in 1..n |-> IF \E j \in DOMAIN pos : pos[j] = p - 1
                                                    THEN o.vs[CHOOSE j \in DOMAIN pos : pos[j] = p - 1] ELSE l[p]],
                            err |-> ""]
=============================================================================
