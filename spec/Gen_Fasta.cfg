CONSTANTS
  Quick = TRUE
