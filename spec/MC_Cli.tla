-------------------------------- MODULE MC_Cli --------------------------------
EXTENDS Cli
\* the decision procedure equals the definition on the whole table
ASSUME \A e \in Explicits, q \in QSources, r \in RSources : DistAlgo(e, q, r) = DistDef(e, q, r)
=============================================================================
