------------------------------- MODULE MC_RefDb -------------------------------
EXTENDS RefDb
\* directory listings: every subset of six entries
Entries == { [name |-> "ref", ext |-> ".gdb", dir |-> FALSE], [name |-> "old", ext |-> ".db", dir |-> FALSE],
             [name |-> "ref", ext |-> ".gs", dir |-> FALSE], [name |-> "alt", ext |-> ".h5", dir |-> FALSE],
             [name |-> "notes", ext |-> ".txt", dir |-> FALSE], [name |-> "subdir", ext |-> "", dir |-> TRUE] }
ASSUME \A L \in SUBSET Entries :
         Locatable(L) = (Cardinality({ f \in L : f.ext \in {".gdb", ".db"} }) = 1
                         /\ Cardinality({ f \in L : f.ext \in {".gs", ".h5"} /\ ~f.dir }) = 1)
=============================================================================
