------------------------------ MODULE CalcFiles ------------------------------
(***************************************************************************)
(* C13.  gambit.sigs.calc.calc_file_signatures with an executor: one task  *)
(* per file is submitted, tasks start when a worker is free, finish or     *)
(* fail in ANY order, completed futures are collected as they complete and *)
(* each result is stored at the position of ITS file.  The abstract        *)
(* signature of file i is the token i.                                     *)
(*   CollectMode = "index"  : result stored at the file's index (the code) *)
(*   CollectMode = "append" : negative control - results in completion     *)
(*                            order                                        *)
(***************************************************************************)
EXTENDS Base

CONSTANTS MaxFiles, MaxWorkers, MaxFailing, CollectMode

VARIABLES n,          \* number of files
          failing,    \* set of files that cannot be read / parsed
          W,          \* number of workers
          st,         \* st[i] \in {"new","queued","running","done","failed"}
          collected,  \* set of files whose future has been collected
          sigs,       \* result list under construction: position -> file token (0 = None)
          outcome     \* "running" | "returned" | "raised"
vars == <<n, failing, W, st, collected, sigs, outcome>>

Files == 1..n

InitN(nn, ff, ww) ==
  /\ n = nn /\ failing = ff /\ W = ww
  /\ st = [i \in 1..nn |-> "new"]
  /\ collected = {}
  /\ sigs = IF CollectMode = "index" THEN [i \in 1..nn |-> 0] ELSE <<>>
  /\ outcome = "running"

Init == \E nn \in 1..MaxFiles, ww \in 1..MaxWorkers :
          \E ff \in { F \in SUBSET (1..nn) : Cardinality(F) <= MaxFailing } : InitN(nn, ff, ww)

AllSubmitted == \A i \in Files : st[i] # "new"

\* executor.submit(...) for the files in order
Submit(i) ==
  /\ outcome = "running" /\ st[i] = "new" /\ \A j \in 1..(i - 1) : st[j] # "new"
  /\ st' = [st EXCEPT ![i] = "queued"]
  /\ UNCHANGED <<n, failing, W, collected, sigs, outcome>>

Start(i) ==
  /\ st[i] = "queued" /\ Cardinality({ j \in Files : st[j] = "running" }) < W
  /\ st' = [st EXCEPT ![i] = "running"]
  /\ UNCHANGED <<n, failing, W, collected, sigs, outcome>>

Finish(i) ==
  /\ st[i] = "running"
  /\ st' = [st EXCEPT ![i] = IF i \in failing THEN "failed" ELSE "done"]
  /\ UNCHANGED <<n, failing, W, collected, sigs, outcome>>

\* as_completed yields a completed future; future.result() stores the signature or raises
Collect(i) ==
  /\ outcome = "running" /\ AllSubmitted
  /\ st[i] \in {"done", "failed"} /\ i \notin collected
  /\ collected' = collected \cup {i}
  /\ IF st[i] = "failed"
     THEN outcome' = "raised" /\ UNCHANGED sigs
     ELSE /\ sigs' = IF CollectMode = "index" THEN [sigs EXCEPT ![i] = i] ELSE Append(sigs, i)
          /\ UNCHANGED outcome
  /\ UNCHANGED <<n, failing, W, st>>

Return ==
  /\ outcome = "running" /\ collected = Files
  /\ outcome' = "returned"
  /\ UNCHANGED <<n, failing, W, st, collected, sigs>>

SubmitAny == \E i \in Files : Submit(i)
StartAny == \E i \in Files : Start(i)
FinishAny == \E i \in Files : Finish(i)
CollectAny == \E i \in Files : Collect(i)
Next == SubmitAny \/ StartAny \/ FinishAny \/ CollectAny \/ Return
Spec == Init /\ [][Next]_vars

\* ------------------------------------------------------------------ properties
\* a returned list has one signature per file, in file order, each the file's own
OrderKept == outcome = "returned" => sigs = [i \in 1..n |-> i]
\* the call never returns if some file cannot be processed
FailureIsLoud == outcome = "returned" => failing = {}
ReturnOnlyWhenAllCollected == outcome = "returned" => collected = Files
\* every file's future is collected at most once and only after it completed
CollectedCompleted == \A i \in collected : st[i] \in {"done", "failed"}
=============================================================================
