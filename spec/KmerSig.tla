------------------------------- MODULE KmerSig -------------------------------
(***************************************************************************)
(* C01.  Definition of a k-mer signature (written from the property        *)
(* statement) and, separately, the search algorithm of                     *)
(* gambit.kmers.find_kmers + gambit.sigs.calc.accumulate_kmers as a state  *)
(* machine.  TLC checks algorithm == definition on every small input.      *)
(***************************************************************************)
EXTENDS Nucleotide

\* ------------------------------------------------------------------ definition
\* 0-based positions p at which the prefix occurs (case-insensitively) with room for a whole k-mer after it
Occ(s, pre, k) ==
  { p \in 0..Len(s) : /\ p + Len(pre) + k <= Len(s)
                      /\ \A j \in 1..Len(pre) : Up(s[p + j]) = pre[j] }

KmerAt(s, pre, k, p) == Sub(s, p + Len(pre), p + Len(pre) + k)

\* k-mers (as digit tuples) that directly follow an occurrence of the prefix on the given strand
Fwd(s, k, pre) ==
  { Enc(KmerAt(s, pre, k, p)) : p \in { q \in Occ(s, pre, k) : ValidSeq(KmerAt(s, pre, k, q)) } }

SigDef(s, k, pre) == Fwd(s, k, pre) \cup Fwd(RevComp(s), k, pre)

\* signature of a collection of sequences (a genome): union over the sequences; never across boundaries
SigDefAll(seqs, k, pre) == UNION { SigDef(seqs[i], k, pre) : i \in DOMAIN seqs }

\* ------------------------------------------------------------------ Python bytes.find(sub, start, end)
\* endArg is None (<<>>) or Some(int); negative values count from the end and are clamped at 0
PyFind(h, sub, start, endArg) ==
  LET n == Len(h)
      e == IF endArg = <<>> THEN n
           ELSE IF endArg[1] < 0 THEN Max2(0, n + endArg[1]) ELSE Min2(endArg[1], n)
      c == { p \in start..e : p + Len(sub) <= e /\ Sub(h, p, p + Len(sub)) = sub }
  IN IF c = {} THEN -1 ELSE CHOOSE p \in c : \A q \in c : p <= q
=============================================================================
