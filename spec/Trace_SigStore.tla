---------------------------- MODULE Trace_SigStore ----------------------------
(***************************************************************************)
(* Trace validation for SigStore: every record of IOEnv.REC_FILE is the    *)
(* sequence of storage-library calls one real dump_signatures run made     *)
(* (recorded by wrapping the h5py entry points in the harness process).    *)
(* The recorded calls are replayed through the library model; TLC explores *)
(* every write-back interleaving and evaluates CrashSafe in every state,   *)
(* i.e. at every possible crash point of that execution.  Verdicts are     *)
(* collected per trace in TLC registers and printed by the postcondition.  *)
(***************************************************************************)
EXTENDS SigStore, Json, IOUtils

Traces == ndJsonDeserialize(IOEnv.REC_FILE)
N == Len(Traces)
VARIABLE tid

ASSUME \A t \in 1..(3 * N) : TLCSet(t, 0)

TInit == /\ tid \in 1..N
         /\ call = Traces[tid].calls
         /\ pc = 0 /\ mem = EmptyMem /\ disk = EmptyDisk
TNext == Next /\ UNCHANGED tid
TSpec == TInit /\ [][TNext]_<<vars, tid>>

\* always TRUE; records observations in registers (run with one worker)
Observe ==
  /\ (Loadable(disk) /\ ~Complete(disk, mem)) => TLCSet(tid, 1)
  /\ (pc = Len(call)) => TLCSet(N + tid, 1)
  /\ (pc = Len(call) /\ ~(Loadable(disk) /\ Complete(disk, mem))) => TLCSet(2 * N + tid, 1)

WellFormed(t) ==
  /\ Len(Traces[t].calls) >= 2
  /\ Traces[t].calls[1].op = "create"
  /\ Traces[t].calls[1].trunc                 \* the model's Create starts from an empty file: the writer must truncate
  /\ Traces[t].calls[Len(Traces[t].calls)].op = "close"

Why(t) == (IF TLCGet(t) = 1 THEN <<"a-crash-point-leaves-a-loadable-incomplete-file">> ELSE <<>>)
       \o (IF TLCGet(N + t) = 0 THEN <<"trace-not-replayable">> ELSE <<>>)
       \o (IF TLCGet(2 * N + t) = 1 THEN <<"completed-write-not-durable-or-incomplete">> ELSE <<>>)
       \o (IF ~WellFormed(t) THEN <<"trace-malformed-or-file-not-truncated-at-open">> ELSE <<>>)

Verdict == LET all == [t \in 1..N |-> [i |-> t, why |-> Why(t)]]
           IN PrintT(ToJson([n |-> N, bad |-> SelectSeq(all, LAMBDA x : x.why # <<>>)]))
=============================================================================
