------------------------------ MODULE PathTree ------------------------------
(* The directory tree used by the model checker and by the conformance family `path-resolution`:

       /a (dir 2)   /a/b (dir 3)   /a/x (file 4)   /x (file 5)   /c (dir 6)   /c/x (file 7)   /c/l (node 8: link -> Target, or a plain file)

   and what an input channel of the command line opens for a path: pathlib first drops "." and empty components TEXTUALLY (so a
   file followed only by such components is still opened), then the operating system resolves what is left. *)
EXTENDS PathResolve

Tree(target) ==
  LET link == target # <<"none">> IN
  [kind    |-> [n \in 1..8 |-> IF n \in {1, 2, 3, 6} THEN "dir" ELSE IF n = 8 THEN (IF link THEN "link" ELSE "file") ELSE "file"],
   parent  |-> [n \in 1..8 |-> CASE n \in {1, 2, 5, 6} -> 1 [] n \in {3, 4} -> 2 [] n \in {7, 8} -> 6],
   entries |-> {<<1, "a", 2>>, <<2, "b", 3>>, <<2, "x", 4>>, <<1, "x", 5>>, <<1, "c", 6>>, <<6, "x", 7>>} \cup {<<6, "l", 8>>},
   target  |-> [n \in {8} |-> target]]

Targets == {<<"none">>, <<"a", "b">>, <<"a">>, <<"c">>, <<"c", "l">>, <<"a", "..", "a", "b">>}

PathlibPath(comps) == SelectSeq(comps, LAMBDA c : c \notin {"", "."})

\* the file node opened for `entry` relative to `dir` (0: nothing can be opened - no such file, a directory, a link cycle)
Opened(fs, dir, entry) ==
  LET n == Resolve(fs, PathlibPath(Join(dir, entry))) IN IF n # Fail /\ fs.kind[n] = "file" THEN n ELSE Fail

\* `..` is never applied at the root (there the model and a real directory used as root differ)
StaysBelowRoot(fs, comps) == \A i \in 1..Len(comps) : comps[i] = ".." => Resolve(fs, SubSeq(comps, 1, i - 1)) # Root
=============================================================================
