----------------------------- MODULE MC_ListFile -----------------------------
(* ParseList(Render(names, style)) = names for every rendering style and every list of <= 3 names of <= 2 characters over
   {x, '.', space, form feed, U+2028 (inside a name only)} that neither start nor end with white space. *)
EXTENDS ListFile
\* form feed and the Unicode line separator are ordinary characters INSIDE a name (only LF and CR end a line)
Alpha == {120, 46, 32, 12, 8232}
Names == { s \in UNION { [1..n -> Alpha] : n \in 1..3 } : ~IsWs(s[1]) /\ ~IsWs(s[Len(s)]) }
Lists == UNION { [1..n -> Names] : n \in 0..2 }
ASSUME \A l \in Lists, st \in Styles : ParseList(Render(l, st)) = l
ASSUME Cardinality(Lists) * Cardinality(Styles) > 5000
ASSUME ParseList(<<120, 10, 121>>) = << <<120>>, <<121>> >>          \* no final newline: the last entry counts
ASSUME ParseList(<<>>) = <<>> /\ ParseList(<<10, 13, 10, 32>>) = <<>>
=============================================================================
