----------------------------- MODULE Judge_C17 -----------------------------
(* Judges the Newick output of `gambit tree` (property C17).  The harness parses the Newick text with its own small
   parser and ships: leaf labels, the internal nodes as merges [a, b : sets of leaf labels, h : height in grid units],
   leaf depths, pairwise path lengths (grid units), the smallest branch length.  Grid unit = 1/21600: with at most 6
   k-mers in any union and at most 6 leaves every UPGMA height is an integer number of units. *)
EXTENDS World, Labels, UpgmaDef, Judge

DistScale == 60
HeightDen == 360

Sets(r) == IF r.from_seqs THEN [i \in DOMAIN r.seqs |-> SigDefAll(r.seqs[i], r.k, r.pre)]
           ELSE [i \in DOMAIN r.sets |-> Range(r.sets[i])]
ExpLabels(r) == [i \in DOMAIN r.inputs |-> IF r.strip THEN Label(r.inputs[i]) ELSE r.inputs[i]]

ScaledD(S) ==
  [i \in DOMAIN S |-> [j \in DOMAIN S |->
     LET q == Dist(S[i], S[j]) IN (q[1] * DistScale) \div q[2]]]
GridOK(S) == \A i, j \in DOMAIN S : Cardinality(S[i] \cup S[j]) <= 6

Idx(labels, lab) == CHOOSE i \in DOMAIN labels : labels[i] = lab
ToIdx(labels, ls) == { Idx(labels, ls[x]) : x \in DOMAIN ls }

\* the observed merges, replayed on the exact matrix: each must be a minimum-average pair with the right height
RECURSIVE Replay(_, _, _, _)
Replay(Dm, clusters, ms, i) ==
  IF i > Len(ms) THEN TRUE
  ELSE /\ CanMerge(Dm, clusters, ms[i].a, ms[i].b)
       /\ ms[i].h = HeightOf(Dm, ms[i].a, ms[i].b, HeightDen)
       /\ Replay(Dm, (clusters \ {ms[i].a, ms[i].b}) \cup {ms[i].a \cup ms[i].b}, ms, i + 1)

Clauses(r) ==
  LET S == Sets(r)
      n == Len(S)
      labs == ExpLabels(r)
      unique == \A i, j \in DOMAIN labs : i # j => labs[i] # labs[j]
      t == r.tree
      leafOK == /\ Len(t.leaves) = n /\ unique
                /\ { t.leaves[x] : x \in DOMAIN t.leaves } = { labs[i] : i \in DOMAIN labs }
      ms == IF leafOK THEN [m \in DOMAIN t.merges |-> [a |-> ToIdx(labs, t.merges[m].a), b |-> ToIdx(labs, t.merges[m].b), h |-> t.merges[m].h]]
            ELSE <<>>
      Dm == ScaledD(S)
      coph(i, j) == LET hit == { m \in DOMAIN ms : i \in ms[m].a \cup ms[m].b /\ j \in ms[m].a \cup ms[m].b }
                    IN IF hit = {} THEN -1 ELSE ms[CHOOSE m \in hit : \A k \in hit : ms[m].h <= ms[k].h].h
  IN
  << <<"command-succeeds", r.rc = 0 /\ t.ok>>,
     <<"scenario-on-grid", GridOK(S) /\ unique>>,
     <<"leaves-are-exactly-the-input-labels", t.ok => leafOK>>,
     <<"rooted-binary", t.ok => t.binary /\ Len(t.merges) = n - 1>>,
     <<"branch-lengths-non-negative", t.ok => t.minbranch >= -200>>,
     <<"leaves-equidistant-from-root", t.ok => ~t.offgrid /\ \A x, y \in DOMAIN t.depths : t.depths[x] = t.depths[y]>>,
     <<"merges-are-an-average-linkage-clustering", (t.ok /\ leafOK /\ GridOK(S)) =>
          Replay(Dm, { {i} : i \in 1..n }, ms, 1)>>,
     <<"path-length-is-twice-the-merge-height", (t.ok /\ leafOK) =>
          \A x, y \in DOMAIN t.leaves : x # y =>
             t.paths[x][y] = 2 * coph(Idx(labs, t.leaves[x]), Idx(labs, t.leaves[y]))>> >>

ASSUME PrintT(ToJson(Verdict(Recs, Clauses)))
=============================================================================
