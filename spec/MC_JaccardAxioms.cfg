CONSTANTS
  U = 4
