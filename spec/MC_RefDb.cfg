SPECIFICATION Spec
CONSTANTS
  MaxGenomes = 2
  MaxSigs = 3
  Ids = {1, 2, 3}
INVARIANT Agrees
