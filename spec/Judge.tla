------------------------------- MODULE Judge -------------------------------
(***************************************************************************)
(* TLC as judge of call records produced by the real code.                 *)
(* A judge module defines Clauses(r): a sequence of <<name, BOOLEAN>> and   *)
(* prints Verdict(Recs, Clauses) as one ToJson line.  A record is accepted  *)
(* iff every clause holds; the names of the failing clauses are reported.   *)
(***************************************************************************)
EXTENDS Integers, Sequences, TLC, Json, IOUtils

Recs == ndJsonDeserialize(IOEnv.REC_FILE)

Failed(cl) == LET f == SelectSeq(cl, LAMBDA c : ~c[2]) IN [j \in 1..Len(f) |-> f[j][1]]

Verdict(rs, Cl(_)) ==
  LET all == [i \in 1..Len(rs) |-> [i |-> i, why |-> Failed(Cl(rs[i]))]]
  IN [n |-> Len(rs), bad |-> SelectSeq(all, LAMBDA x : x.why # <<>>)]
=============================================================================
