SPECIFICATION Spec
CONSTANTS
  SessionClass = "readonly"
  H5Mode = "r"
  MaxDepth = 6
  Record = FALSE
INVARIANT Immutable
INVARIANT NeverEmits
