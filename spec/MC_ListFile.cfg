CONSTANTS
