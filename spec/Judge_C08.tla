----------------------------- MODULE Judge_C08 -----------------------------
(* Judges one run of `gambit query` / query_parse (a batch of genomes) against the system specification (property C08):
   one row per input, in input order, labelled from the path (or stored id), each row equal to World!Item of THAT genome
   and the database - which mentions nothing else of the batch.  r.db carries, besides World's fields, the texts
   tname / trank / tncbi / gdesc / gkey used in the output. *)
EXTENDS World, Labels, Judge

LabelOf(src) == IF src.kind = "path" THEN Label(src.v) ELSE src.v

TaxView(db, t) == IF t = 0 THEN [some |-> FALSE, name |-> <<>>, rank |-> <<>>, ncbi |-> -1, thr |-> -1]
                  ELSE [some |-> TRUE, name |-> db.tname[t], rank |-> db.trank[t], ncbi |-> db.tncbi[t], thr |-> db.thr[t]]

Clauses(r) ==
  LET n == Len(r.batch) IN
  << <<"command-succeeds", r.rc = 0>>,
     <<"one-row-per-input", r.rc = 0 => Len(r.rows) = n>>,
     <<"rows-labelled-in-input-order", (r.rc = 0 /\ Len(r.rows) = n) =>
          \A i \in 1..n : r.rows[i].label = LabelOf(r.batch[i].label)>>,
     <<"row-content-depends-only-on-its-genome-and-the-database", (r.rc = 0 /\ Len(r.rows) = n) =>
          \A i \in 1..n :
             LET d == RowDists(r.db, r.batch[i].contigs)
                 it == Item(r.db, d)
                 row == r.rows[i] IN
               /\ row.report = TaxView(r.db, it.report)
               /\ row.next = TaxView(r.db, it.next)
               /\ (row.has_closest => row.closest_d = it.closest_d /\ row.closest_desc = r.db.gdesc[it.closest_g])
               /\ (row.has_list =>
                     LET L == ClosestList(d, r.N, {}) IN
                       row.list = [x \in DOMAIN L |-> [key |-> r.db.gkey[L[x]], d |-> d[L[x]]]])>> >>

ASSUME PrintT(ToJson(Verdict(Recs, Clauses)))
=============================================================================
