SPECIFICATION Spec
CONSTANTS
  MaxN = 4
  MaxRank = 2
  Stable = TRUE
INVARIANT Correct
INVARIANT FirstIsClosest
INVARIANT DefShape
