----------------------------- MODULE Judge_Paths -----------------------------
(* Judges records of the family `path-resolution`: r.target = the link's target (or <<"none">>), r.dir / r.entry = components of the
   directory and of the entry, r.got = node whose contents the implementation read (0: it raised), r.label = code points of the label derived.  The expected node is computed here by
   PathTree!Opened; the harness only materialises the tree on disk and reports what was read. *)
EXTENDS PathTree, Labels, Judge

\* the text of a path as code points (the component alphabet is fixed)
CpOf(c) == CASE c = "a" -> <<97>> [] c = "b" -> <<98>> [] c = "c" -> <<99>> [] c = "x" -> <<120>> [] c = "l" -> <<108>>
             [] c = ".." -> <<46, 46>> [] c = "." -> <<46>> [] c = "" -> <<>>
RECURSIVE Text(_)
Text(comps) == IF comps = <<>> THEN <<>> ELSE IF Len(comps) = 1 THEN CpOf(comps[1]) ELSE CpOf(comps[1]) \o <<Slash>> \o Text(Tail(comps))

\* a list-file entry is labelled from its text as written; a positional argument from its text after pathlib dropped "." and empty components
WantLabel(r) == IF r.channel = "list" THEN Label(Text(r.entry)) ELSE Label(Text(PathlibPath(r.entry)))

Clauses(r) ==
  LET fs == Tree(r.target)
      inScope == StaysBelowRoot(fs, Join(r.dir, r.entry)) /\ r.entry # <<>> /\ r.entry[1] # ""
  IN << <<"opens-the-file-the-operating-system-resolves-the-path-to", inScope => r.got = Opened(fs, r.dir, r.entry)>>,
        <<"label-comes-from-the-text-given", (inScope /\ r.got # 0) => r.label = WantLabel(r)>> >>

ASSUME PrintT(ToJson(Verdict(Recs, Clauses)))
=============================================================================
