-------------------------------- MODULE System --------------------------------
(***************************************************************************)
(* The command-line system as one state machine (composition of the        *)
(* pieces specified elsewhere):                                            *)
(*   fs      files created so far: signature files [genomes, ks, ids]      *)
(*           and result files; genome FASTA files are given (Genomes)      *)
(*   db      the reference database: parameters Kdb, never changing        *)
(*   last    outcome of the last command                                   *)
(* Commands: SigCreate (genomes -> signature file, parameters explicit /   *)
(* default / from the database), Query (files or a signature file), Dist   *)
(* (files / signature files / database), Tree.  Content is abstract: the   *)
(* signature of genome g under parameters K is the token <<g, K>>, a       *)
(* result row for g under K is Row(g, K).                                  *)
(* Properties: results are written only by successful commands; nothing    *)
(* compares signatures of different parameters (C14); the database never   *)
(* changes (C18); a genome gives the SAME row whether it is queried from   *)
(* its file or from a signature file made of it by SigCreate, alone or in  *)
(* any batch (C08).                                                        *)
(***************************************************************************)
EXTENDS Base

CONSTANTS Genomes, Params, DEFAULT, Kdb, MaxCmds, MaxSigFiles

VARIABLES sigfiles,   \* set of [genomes : Seq(Genomes), ks : Params]
          results,    \* set of result rows ever written: [cmd, g, ks, batch]
          compared,   \* pairs <<ks of query side, ks of reference side>> ever compared
          dbver,      \* version of the database files (0 = pristine)
          ncmds, nfail
vars == <<sigfiles, results, compared, dbver, ncmds, nfail>>

Batches == UNION { [1..n -> Genomes] : n \in 1..2 }
Row(g, K) == <<"row", g, K>>

Init == sigfiles = {} /\ results = {} /\ compared = {} /\ dbver = 0 /\ ncmds = 0 /\ nfail = 0

Tick(ok) == ncmds' = ncmds + 1 /\ nfail' = IF ok THEN nfail ELSE nfail + 1

\* gambit signatures create [-k/-p | --db-params] GENOMES -o FILE
SigCreate(batch, how) ==
  /\ ncmds < MaxCmds /\ Cardinality(sigfiles) < MaxSigFiles
  /\ LET K == CASE how = "default" -> DEFAULT [] how = "db" -> Kdb [] OTHER -> how IN
       sigfiles' = sigfiles \cup {[genomes |-> batch, ks |-> K]}
  /\ Tick(TRUE) /\ UNCHANGED <<results, compared, dbver>>

\* gambit -d DB query GENOMES
QueryFiles(batch) ==
  /\ ncmds < MaxCmds
  /\ results' = results \cup { [cmd |-> "query", row |-> Row(batch[i], Kdb), batch |-> batch, pos |-> i] : i \in DOMAIN batch }
  /\ compared' = compared \cup {<<Kdb, Kdb>>}
  /\ Tick(TRUE) /\ UNCHANGED <<sigfiles, dbver>>

\* gambit -d DB query -s FILE
QuerySigs(f) ==
  /\ ncmds < MaxCmds /\ f \in sigfiles
  /\ IF f.ks = Kdb
     THEN /\ results' = results \cup { [cmd |-> "query", row |-> Row(f.genomes[i], f.ks), batch |-> f.genomes, pos |-> i] : i \in DOMAIN f.genomes }
          /\ compared' = compared \cup {<<f.ks, Kdb>>}
          /\ Tick(TRUE)
     ELSE /\ Tick(FALSE) /\ UNCHANGED <<results, compared>>
  /\ UNCHANGED <<sigfiles, dbver>>

\* gambit dist --qs FILE (--rs FILE | --use-db)    (no explicit -k/-p)
DbSrc == [genomes |-> <<>>, ks |-> Kdb]       \* the database's own signatures as a reference source
DistSigs(q, r) ==
  /\ ncmds < MaxCmds /\ q \in sigfiles /\ (r = DbSrc \/ r \in sigfiles)
  /\ LET rk == r.ks IN
       IF q.ks = rk
       THEN /\ compared' = compared \cup {<<q.ks, rk>>}
            /\ results' = results \cup {[cmd |-> "dist", row |-> <<"matrix", q.genomes, q.ks>>, batch |-> q.genomes, pos |-> 0]}
            /\ Tick(TRUE)
       ELSE Tick(FALSE) /\ UNCHANGED <<results, compared>>
  /\ UNCHANGED <<sigfiles, dbver>>

SigCreateAny == \E b \in Batches, how \in {"default", "db"} \cup Params : SigCreate(b, how)
QueryFilesAny == \E b \in Batches : QueryFiles(b)
QuerySigsAny == \E f \in sigfiles : QuerySigs(f)
DistSigsAny == \E q \in sigfiles, r \in sigfiles \cup {DbSrc} : DistSigs(q, r)
Next == SigCreateAny \/ QueryFilesAny \/ QuerySigsAny \/ DistSigsAny
Spec == Init /\ [][Next]_vars

NoSilentMismatch == \A c \in compared : c[1] = c[2]
DbImmutable == dbver = 0
\* the row of a genome is the same whatever the channel, batch and position
ContextFree == \A r1, r2 \in results :
                 (r1.cmd = "query" /\ r2.cmd = "query" /\ r1.row[2] = r2.row[2]) => r1.row = r2.row
Accounting == nfail <= ncmds
=============================================================================
