----------------------------- MODULE DbSessionDef -----------------------------
(* C18.  Vocabulary and step relation of the default (read-only) database session, free of variables so that it can be
   used both by the DbWorld state machine and by the judge of observed histories. *)
EXTENDS Base

NoPending == [new |-> FALSE, dirty |-> FALSE, deleted |-> FALSE]
CliCmds == {"cli_query", "cli_query_sigs", "cli_query_strict_json", "cli_dist_usedb", "cli_siginfo_db", "cli_siginfo_db_ids",
            "cli_create_dbparams", "cli_tree", "cli_query_missing_file", "cli_dist_bad_params", "cli_query_foreign_sigs"}
FailingCli == {"cli_query_missing_file", "cli_dist_bad_params", "cli_query_foreign_sigs"}
\* "lib_other_rw_reader": some other code in the same process opens the same genome file with a read-write session maker
\* (file_sessionmaker(path, readonly=False)), only reads through it and closes it; it must not change what the DEFAULT
\* session does afterwards
LibCmds == {"lib_load", "lib_edit", "lib_add", "lib_delete", "lib_flush", "lib_commit", "lib_begin_block", "lib_rollback",
            "lib_query", "lib_close", "lib_read_sigs", "lib_other_rw_reader", "lib_other_ro_reader", "lib_tree_walk",
            "lib_bulk_update", "lib_execute_update", "lib_load_ctx", "lib_load_ctx_engine_first", "lib_other_sigfile_rw"}
\* "lib_begin_nested": session.begin_nested() opens a SAVEPOINT (with SQLite's driver the savepoint is the outermost database
\* transaction); commit is still refused and close still discards statement-level writes made inside it.  It is NOT in the generator's
\* alphabet: what rollback() does to the enclosing levels depends on the ORM version (1.4 legacy sessions roll back one level only),
\* which this specification does not model; it appears in hand-picked histories that end the savepoint with close.
ExtraCmds == {"lib_begin_nested"}
\* "lib_other_sigfile_rw": some other code in the same process opens ANOTHER signature file for update (load_signatures(path, mode='r+')),
\* uses and closes it; it must not change how the database's own signature file is opened afterwards
\* the ways of obtaining the default session: ReferenceDatabase.load_from_dir, and the command line's context object
\* (CLIContext.get_database()) with its lazily created engine / session maker touched in either order
LoadCmds == {"lib_load", "lib_load_ctx", "lib_load_ctx_engine_first"}
\* statement-level writes issued through the default session (Query.update(), session.execute(update(...))): they bypass the
\* unit of work, so neither the no-op flush nor the raising commit sees them; they go into the connection's open transaction,
\* which nothing can commit, and are discarded by rollback / close.  While that transaction is open SQLite keeps a rollback
\* journal next to the genome file.
StmtCmds == {"lib_bulk_update", "lib_execute_update"}
EndTxn == {"lib_rollback", "lib_close", "lib_load", "lib_load_ctx", "lib_load_ctx_engine_first"}
\* is a statement-level write still open after step i of the command sequence cmds?
\* is the library session open after step i?  (a genome file in WAL journal mode has -wal / -shm companions while a connection is open)
SessionOpen(cmds, i) == \E j \in 1..i : cmds[j] \in LoadCmds /\ \A m \in (j + 1)..i : cmds[m] # "lib_close"
StmtOpen(cmds, i) == \E j \in 1..i : cmds[j] \in StmtCmds /\ \A m \in (j + 1)..i : cmds[m] \notin EndTxn
Cmds == CliCmds \cup LibCmds

\* pending new/dirty/deleted sets a READ-ONLY session may show after command c, given those before it:
\* edits accumulate; flush, queries (autoflush) and commit leave them untouched (nothing is ever flushed); rollback,
\* close and load clear them; leaving a `with session.begin()` block either raises and rolls back or finds nothing to do
PendingAfter(c, p) ==
  CASE c = "lib_edit" -> {[p EXCEPT !.dirty = TRUE]}
    [] c = "lib_add" -> {[p EXCEPT !.new = TRUE]}
    [] c = "lib_delete" -> {[p EXCEPT !.deleted = TRUE]}
    [] c \in {"lib_rollback", "lib_close"} \cup {"lib_load", "lib_load_ctx", "lib_load_ctx_engine_first"} -> {NoPending}
    [] c = "lib_begin_block" -> {p, NoPending}
    [] OTHER -> {p}

Outcomes(c) ==
  CASE c \in FailingCli -> {"error"}
    [] c \in CliCmds -> {"ok"}
    [] c = "lib_commit" -> {"error"}            \* the default session refuses to commit
    [] c = "lib_begin_block" -> {"ok", "error"}
    [] OTHER -> {"ok"}
=============================================================================
