----------------------------- MODULE SigClauses -----------------------------
(* Clauses shared by the judges of C20 and C12: indexing results, equality, mutation histories. *)
EXTENDS SigIndex, Judge

ClIndex(r) ==
  LET n == Len(r.coll.items)
      exp == Select(n, r.ix)
      real == r.cont # "pylist"                       \* calibration records carry no dtype / k-mer parameters
  IN
  << <<"result-kind", (exp.res = "error") = (r.res.kind = "error") /\ (exp.res = "item") = (r.res.kind = "item")>>,
     <<"error-class", exp.res = "error" => r.res.err \in exp.cls>>,
     <<"selects-what-a-list-would", (exp.res # "error" /\ r.res.kind # "error") => r.res.items = Take(r.coll.items, exp.pos)>>,
     <<"keeps-kmer-parameters", (real /\ exp.res = "coll" /\ r.res.kind = "coll") =>
            r.res.k = r.coll.k /\ r.res.prefix = r.coll.prefix>>,
     <<"keeps-integer-type", (real /\ exp.res # "error" /\ r.res.kind # "error") => r.res.dtype = r.coll.dtype>>,
     <<"index-array-unmodified", r.ix.t \in {"ints", "mask"} => r.ix_after = r.ix.v>>,
     <<"bounds-are-prefix-sums", (r.res.kind = "coll" /\ r.res.bounds # <<>>) =>
            r.res.bounds = PrefixSums(r.res.items) /\ r.res.nvalues = r.res.bounds[Len(r.res.bounds)]>> >>

ClEq(r) ==
  << <<"equal-iff-same-parameters-and-signatures", r.ok /\ r.eq = CollEq(r.a, r.b) /\ r.eq_rev = CollEq(r.a, r.b)>>,
     <<"not-equal-is-negation", r.ok => r.ne = ~CollEq(r.a, r.b)>> >>

\* a mutation history: r.init, then steps [o, err, after]; every step must be Effect of the previous state
ClMut(r) ==
  LET st(j) == IF j = 0 THEN r.init ELSE r.steps[j].after IN
  << <<"follows-list-semantics",
        \A j \in DOMAIN r.steps :
           LET e == Effect(st(j - 1), r.steps[j].o) IN
             /\ r.steps[j].after = e.lst
             /\ (e.err = "") = (r.steps[j].err = "")
             /\ (e.err # "" => r.steps[j].err \in {e.err} \cup (IF e.err = "IndexError" THEN {"TypeError"} ELSE {}))>>,
     <<"parameters-type-sizes-and-content-equality-kept", \A j \in DOMAIN r.steps : r.steps[j].meta_ok>> >>

\* a sub-collection obtained by indexing a list-backed collection is an independent list: mutating it leaves the parent as it was,
\* and mutating the parent leaves it as it was (r.who = "sub" / "parent" says which one received the mutation r.o)
ClAlias(r) ==
  LET sel == Select(Len(r.init), r.ix)
      sub0 == Take(r.init, sel.pos)
      e == Effect(IF r.who = "sub" THEN sub0 ELSE r.init, r.o)
  IN
  << <<"selection-is-a-collection", sel.res = "coll" /\ r.ok>>,
     <<"mutated-object-follows-list-semantics", (sel.res = "coll" /\ r.ok) =>
          (IF r.who = "sub" THEN r.sub_after ELSE r.parent_after) = e.lst /\ (e.err = "") = (r.err = "")>>,
     <<"other-object-unchanged", (sel.res = "coll" /\ r.ok) =>
          (IF r.who = "sub" THEN r.parent_after = r.init ELSE r.sub_after = sub0)>> >>

=============================================================================
