----------------------------- MODULE KmerCodec -----------------------------
(***************************************************************************)
(* The four conversion loops of gambit/_cython/kmers.pyx as state machines *)
(* (one action per loop iteration), checked against the definitional       *)
(* operators of Nucleotide.  op selects the routine:                       *)
(*   "k2i"     c_kmer_to_index     : idx <<= 2; idx += code(nuc & 0xDF)    *)
(*   "k2irc"   c_kmer_to_index_rc  : same, walking backwards, 3 - code     *)
(*   "i2k"     c_index_to_kmer     : out[k-i-1] = nuc(index % 4); index >>= 2 *)
(*   "revcomp" c_revcomp           : out[n-i-1] = complement(seq[i])       *)
(***************************************************************************)
EXTENDS Nucleotide

CONSTANTS Alphabet,   \* bytes k-mers / sequences are drawn from in the model
          MaxLen      \* maximum input length in the model

VARIABLES op, inp, i, acc, out, exc, pc
vars == <<op, inp, i, acc, out, exc, pc>>

\* the code's case fold: clear bit 5 of the byte
Fold(b) == IF (b \div 32) % 2 = 1 THEN b - 32 ELSE b

SeqsUpTo(S, n) == UNION { [1..m -> S] : m \in 0..n }

Init ==
  /\ op \in {"k2i", "k2irc", "i2k", "revcomp"}
  /\ inp \in (IF op = "i2k" THEN SeqsUpTo(0..3, MaxLen) ELSE SeqsUpTo(Alphabet, MaxLen))
  /\ i = 0
  /\ acc = (IF op = "i2k" THEN PosVal(inp, 4) ELSE 0)
  /\ out = [j \in 1..Len(inp) |-> 0]
  /\ exc = FALSE
  /\ pc = "loop"

K2IStep ==
  /\ op = "k2i" /\ pc = "loop" /\ i < Len(inp)
  /\ LET nuc == Fold(inp[i + 1]) IN
       IF nuc \in {cA, cC, cG, cT}
       THEN /\ acc' = acc * 4 + (CASE nuc = cA -> 0 [] nuc = cC -> 1 [] nuc = cG -> 2 [] nuc = cT -> 3)
            /\ i' = i + 1 /\ UNCHANGED <<exc, pc>>
       ELSE /\ exc' = TRUE /\ acc' = 0 /\ pc' = "done" /\ UNCHANGED i
  /\ UNCHANGED <<op, inp, out>>

K2IRCStep ==
  /\ op = "k2irc" /\ pc = "loop" /\ i < Len(inp)
  /\ LET nuc == Fold(inp[Len(inp) - i]) IN
       IF nuc \in {cA, cC, cG, cT}
       THEN /\ acc' = acc * 4 + (CASE nuc = cA -> 3 [] nuc = cC -> 2 [] nuc = cG -> 1 [] nuc = cT -> 0)
            /\ i' = i + 1 /\ UNCHANGED <<exc, pc>>
       ELSE /\ exc' = TRUE /\ acc' = 0 /\ pc' = "done" /\ UNCHANGED i
  /\ UNCHANGED <<op, inp, out>>

I2KStep ==
  /\ op = "i2k" /\ pc = "loop" /\ i < Len(inp)
  /\ out' = [out EXCEPT ![Len(inp) - i] = NucOf(acc % 4)]
  /\ acc' = acc \div 4
  /\ i' = i + 1
  /\ UNCHANGED <<op, inp, exc, pc>>

RevCompStep ==
  /\ op = "revcomp" /\ pc = "loop" /\ i < Len(inp)
  /\ LET nuc == inp[i + 1] IN
       out' = [out EXCEPT ![Len(inp) - i] =
                 CASE nuc = cA -> cT [] nuc = ca -> ct [] nuc = cT -> cA [] nuc = ct -> ca
                   [] nuc = cG -> cC [] nuc = cg -> cc [] nuc = cC -> cG [] nuc = cc -> cg
                   [] OTHER -> nuc]
  /\ i' = i + 1
  /\ UNCHANGED <<op, inp, acc, exc, pc>>

Finish ==
  /\ pc = "loop" /\ i = Len(inp)
  /\ pc' = "done"
  /\ UNCHANGED <<op, inp, i, acc, out, exc>>

Next == K2IStep \/ K2IRCStep \/ I2KStep \/ RevCompStep \/ Finish
Spec == Init /\ [][Next]_vars

\* ------------------------------------------------------------------ properties
Correct ==
  pc = "done" =>
    CASE op = "k2i"     -> /\ exc = ~ValidSeq(inp)
                           /\ (~exc => acc = PosVal(Enc(inp), 4))
      [] op = "k2irc"   -> /\ exc = ~ValidSeq(inp)
                           /\ (~exc => acc = PosVal(EncRC(inp), 4))
      [] op = "i2k"     -> /\ out = Dec(inp)
                           /\ Enc(out) = inp            \* the two directions are mutually inverse
      [] op = "revcomp" -> /\ out = RevComp(inp)
                           /\ RevComp(out) = inp        \* involution
                           /\ (ValidSeq(inp) => Enc(out) = EncRC(inp))

TypeOK == pc \in {"loop", "done"} /\ i \in 0..Len(inp) /\ acc \in Nat
=============================================================================
