------------------------------- MODULE SigList -------------------------------
(***************************************************************************)
(* The mutable list-backed collection as a state machine: the state is the *)
(* sequence of items, every mutation is an action (SigIndex!Effect).       *)
(* Model-checked for postconditions stated independently of Effect, and    *)
(* used as generator of mutation histories replayed on the real            *)
(* SignatureList (history variable hist; printed by PrintHist).            *)
(***************************************************************************)
EXTENDS SigIndex, Json

CONSTANTS MaxLen, MaxDepth, Vals,
          Record     \* TRUE: keep the history variable (generator mode); FALSE: model-checking mode, postconditions asserted
VARIABLES lst, hist
vars == <<lst, hist>>

Idx == (0 - MaxLen - 1)..(MaxLen + 1)
OptIdx == {<<>>} \cup { <<i>> : i \in (0 - MaxLen - 1)..(MaxLen + 1) }
OptStep == {<<>>, <<1>>, <<2>>, <<-1>>, <<-2>>}
Ops ==
       [op : {"setitem"}, i : Idx, v : Vals]
  \cup [op : {"delitem", "pop"}, i : Idx]
  \cup [op : {"insert"}, i : Idx, v : Vals]
  \cup [op : {"append"}, v : Vals]
  \cup [op : {"extend"}, vs : { <<>>, <<1>>, <<1, 2>> }]
  \cup [op : {"reverse", "clear"}]
  \cup [op : {"delslice"}, a : OptIdx, b : OptIdx, s : OptStep]
  \cup [op : {"setslice"}, a : OptIdx, b : OptIdx, s : OptStep, vs : { <<>>, <<1>>, <<1, 2>> }]

\* ---- postconditions stated independently of Effect (asserted on every transition in model-checking mode)
IsSubseqRemovingOne(short, long) == \E p \in 1..Len(long) : RemoveAt(long, p - 1) = short
Post(o, l, e) ==
  LET h == e  n == Len(l)  l2 == e.lst IN
  CASE o.op \in {"delitem", "pop"} ->
         IF h.err = "" THEN Len(l2) = n - 1 /\ InsertAt(l2, Norm(o.i, n), l[Norm(o.i, n) + 1]) = l
         ELSE l2 = l /\ ~InRange(o.i, n)
    [] o.op = "insert" -> /\ Len(l2) = n + 1 /\ IsSubseqRemovingOne(l, l2)
                          /\ l2[ClampIns(o.i, n) + 1] = o.v
                          /\ (o.i >= n => l2[n + 1] = o.v) /\ (o.i <= 0 - n => l2[1] = o.v)
    [] o.op = "append" -> l2 = l \o <<o.v>>
    [] o.op = "setitem" -> IF h.err = "" THEN /\ Len(l2) = n
                                              /\ \A p \in 1..n : l2[p] = (IF p = Norm(o.i, n) + 1 THEN o.v ELSE l[p])
                           ELSE l2 = l
    [] o.op = "reverse" -> Len(l2) = n /\ \A p \in 1..n : l2[p] = l[n + 1 - p]
    [] o.op = "clear" -> l2 = <<>>
    [] o.op = "extend" -> l2 = l \o o.vs
    [] o.op = "delslice" ->
         IF h.err # "" THEN l2 = l
         ELSE Len(l2) = n - Len(SliceSelect(o.a, o.b, o.s, n))
    [] o.op = "setslice" ->
         IF h.err # "" THEN l2 = l
         ELSE LET t == SliceIndices(o.a, o.b, o.s, n) IN
              IF t[3] = 1 THEN Len(l2) = n - RangeLen(t[1], t[2], 1) + Len(o.vs)
              ELSE Len(l2) = n


Init == /\ lst \in UNION { [1..n -> Vals] : n \in 0..2 }
        /\ hist = IF Record THEN <<[o |-> [op |-> "init"], err |-> "", after |-> lst]>> ELSE <<>>

Do(o) ==
  /\ Len(hist) < MaxDepth
  /\ LET e == Effect(lst, o) IN
       /\ Len(e.lst) <= MaxLen
       /\ lst' = e.lst
       /\ (Record \/ Assert(Post(o, lst, e), <<"postcondition violated", o, lst, e>>))
       /\ hist' = IF Record THEN Append(hist, [o |-> o, err |-> e.err, after |-> e.lst]) ELSE hist

Next == \E o \in Ops : Do(o)
Spec == Init /\ [][Next]_vars

\* slices: closed form == enumeration by stepping (definition of Python's extended slicing)
RECURSIVE StepFrom(_, _, _)
StepFrom(x, stop, step) ==
  IF (step > 0 /\ x >= stop) \/ (step < 0 /\ x <= stop) THEN <<>> ELSE <<x>> \o StepFrom(x + step, stop, step)
SliceByStepping(a, b, s, n) == LET t == SliceIndices(a, b, s, n) IN StepFrom(t[1], t[2], t[3])
SliceLemma ==
  \A n \in 0..MaxLen : \A a \in OptIdx, b \in OptIdx :
    \A s \in {<<>>, <<1>>, <<2>>, <<3>>, <<-1>>, <<-2>>, <<-3>>} :
      /\ SliceSelect(a, b, s, n) = SliceByStepping(a, b, s, n)
      /\ \A j \in DOMAIN SliceSelect(a, b, s, n) : SliceSelect(a, b, s, n)[j] \in 0..(n - 1)
ASSUME SliceLemma

\* generator mode: print every complete history as one JSON line (always TRUE)
Emit == (Record /\ Len(hist) = MaxDepth) => PrintT(ToJson(hist))

TypeOK == Len(lst) <= MaxLen /\ \A p \in DOMAIN lst : lst[p] \in Vals \cup {1, 2}
=============================================================================
