----------------------------- MODULE Judge_C05 -----------------------------
(* Judges bulk distance computations (property C05).  r.sets = pool of signatures (rank sequences); r.q / r.r = pool
   indices (1-based) of the queries / of the reference collection in container order; r.idx = explicit 0-based selection
   of references (or r.has_idx = FALSE); r.pair[a][b] = bit pattern of the two-signature distance reported for pool
   members a, b; r.out = bit patterns of the bulk result. *)
EXTENDS Jaccard, SigIndex, Judge

BitsOf(f) == IF f.z THEN 0 ELSE (f.e + 127) * 8388608 + (f.m - 8388608)
SetOf(r, a) == Range(r.sets[a])
Cols(r) == IF r.has_idx THEN [j \in DOMAIN r.idx |-> r.r[r.idx[j] + 1]] ELSE r.r      \* pool member compared in column j

\* pair[a][b] = -2 marks a pool member b that does not fit the references' integer type (never used as a reference)
PairOK(r) == \A a \in DOMAIN r.sets : \A b \in DOMAIN r.sets :
               r.pair[a][b] # -2 => r.pair[a][b] = BitsOf(Dist32(SetOf(r, a), SetOf(r, b)))

\* records of the family mutated-reference-lists carry the list before (r.r0) and the actions applied (r.hist): the list the bulk call must
\* describe (r.r, tracked by the harness with a plain python list) is the one the specification's list machine reaches
RECURSIVE Final(_, _)
Final(l, h) == IF h = <<>> THEN l ELSE Final(Effect(l, Head(h)).lst, Tail(h))
HistOK(r) == ("hist" \in DOMAIN r) => r.r = Final(r.r0, r.hist)

ClMatrix(r) ==
  LET cols == Cols(r) IN
  << <<"no-error", r.ok>>,
     <<"reference-list-is-what-the-mutation-history-leaves", HistOK(r)>>,
     <<"two-signature-distance-is-the-rounded-ratio", r.ok => PairOK(r)>>,
     <<"shape", r.ok => Len(r.out) = Len(r.q) /\ \A i \in DOMAIN r.out : Len(r.out[i]) = Len(cols)>>,
     <<"cells-bit-identical-to-two-signature-distance-in-caller-order", r.ok =>
          \A i \in DOMAIN r.out : \A j \in DOMAIN r.out[i] : j \in DOMAIN cols => r.out[i][j] = r.pair[r.q[i]][cols[j]]>>,
     <<"output-buffer-respected", r.ok => r.buffer_ok>> >>

ClSquare(r) ==
  LET cols == Cols(r)  n == Len(cols) IN
  << <<"no-error", r.ok>>,
     <<"reference-list-is-what-the-mutation-history-leaves", HistOK(r)>>,
     <<"two-signature-distance-is-the-rounded-ratio", r.ok => PairOK(r)>>,
     <<"shape", r.ok => Len(r.out) = n /\ \A i \in DOMAIN r.out : Len(r.out[i]) = n>>,
     <<"cells-bit-identical-to-two-signature-distance-in-caller-order", r.ok =>
          \A i \in 1..n : \A j \in 1..n : i # j => r.out[i][j] = r.pair[cols[i]][cols[j]]>>,
     <<"symmetric-with-zero-diagonal", r.ok => \A i \in 1..n : r.out[i][i] = 0 /\ \A j \in 1..n : r.out[i][j] = r.out[j][i]>>,
     <<"output-buffer-respected", r.ok => r.buffer_ok>> >>

FlatPos(i, j, n) == n * i - (i * (i + 1)) \div 2 + (j - i - 1)
ClFlat(r) ==
  LET cols == Cols(r)  n == Len(cols) IN
  << <<"no-error", r.ok>>,
     <<"reference-list-is-what-the-mutation-history-leaves", HistOK(r)>>,
     <<"two-signature-distance-is-the-rounded-ratio", r.ok => PairOK(r)>>,
     <<"shape", r.ok => Len(r.out) = 1 /\ Len(r.out[1]) = (n * (n - 1)) \div 2>>,
     <<"condensed-cells-bit-identical-in-pair-order", r.ok =>
          \A i \in 0..(n - 1) : \A j \in 0..(n - 1) : i < j => r.out[1][FlatPos(i, j, n) + 1] = r.pair[cols[i + 1]][cols[j + 1]]>>,
     <<"output-buffer-respected", r.ok => r.buffer_ok>> >>

Clauses(r) == CASE r.op \in {"matrix", "array"} -> ClMatrix(r) [] r.op = "square" -> ClSquare(r) [] r.op = "flat" -> ClFlat(r)

ASSUME PrintT(ToJson(Verdict(Recs, Clauses)))
=============================================================================
