----------------------------- MODULE StreamLife -----------------------------
(* The stream lifecycle as a state machine over StreamDef!Step, with the consumer pattern of calc_file_signature
   (`with seqfile.parse() as records: for r in records: ...`) as a second process phase.  Model-checked by MC_StreamLife.cfg. *)
EXTENDS StreamDef
CONSTANTS MaxN, MaxOps, Faithful      \* Faithful = FALSE: negative control (an error is swallowed as a normal end of the stream)

VARIABLES src, s, hist, got, mode
vars == <<src, s, hist, got, mode>>

Sources == { [n |-> n, fail |-> f, after |-> a] : n \in 0..MaxN, f \in 0..(MaxN + 1), a \in {"stops", "unspecified"} }

StepX(sr, st, op) ==
  IF ~Faithful /\ op = "next" /\ ~st.dead /\ st.open = "yes" /\ st.pos + 1 = sr.fail
  THEN <<[st EXCEPT !.dead = TRUE, !.open = "no"], <<"stop">>>>
  ELSE Step(sr, st, op)

Init == src \in Sources /\ s = S0 /\ hist = <<>> /\ got = <<>> /\ mode \in {"free", "with"}

\* free use: any operation in any order
Free(op) ==
  /\ mode = "free" /\ Len(hist) < MaxOps
  /\ LET r == StepX(src, s, op) IN
       /\ s' = r[1] /\ hist' = Append(hist, <<op, r[2]>>)
       /\ got' = IF r[2][1] = "item" THEN Append(got, r[2][2]) ELSE got
  /\ UNCHANGED <<src, mode>>

\* the consumer pattern: next until stop or error, then leave the with-block
Consume ==
  /\ mode = "with"
  /\ LET r == StepX(src, s, "next") IN
       /\ s' = r[1] /\ hist' = Append(hist, <<"next", r[2]>>)
       /\ got' = IF r[2][1] = "item" THEN Append(got, r[2][2]) ELSE got
       /\ mode' = IF r[2][1] = "item" THEN "with" ELSE IF r[2][1] = "stop" THEN "leave-ok" ELSE "leave-err"
  /\ UNCHANGED src
Leave ==
  /\ mode \in {"leave-ok", "leave-err"}
  /\ s' = StepX(src, s, "exit")[1] /\ hist' = Append(hist, <<"exit", <<"ok">>>>)
  /\ mode' = IF mode = "leave-ok" THEN "returned" ELSE "raised"
  /\ UNCHANGED <<src, got>>

Next == (\E op \in Ops : Free(op)) \/ Consume \/ Leave
Spec == Init /\ [][Next]_vars

\* ------------------------------------------------------------------ properties
\* records come out in file order, each once, never past a failing position
Prefix == got = [i \in 1..Len(got) |-> i] /\ Len(got) <= src.n /\ (src.fail > 0 => Len(got) < src.fail)
\* nothing is ever yielded from a closed stream
NoDataAfterClose == \A i \in DOMAIN hist : hist[i][2][1] = "item" =>
                       \A j \in 1..(i - 1) : hist[j][1] \notin {"close", "exit"} /\ hist[j][2][1] # "stop"
\* the consumer returns exactly when the whole file was read, and then it has every record; a failing read always surfaces
ConsumerOutcome == /\ mode = "returned" => (got = [i \in 1..src.n |-> i] /\ (src.fail = 0 \/ src.fail > src.n + 1))
                   /\ mode = "raised" => src.fail \in 1..(src.n + 1)
\* no leak: once the consumer is done, on either path, the stream is closed
NoLeak == mode \in {"returned", "raised"} => s.open = "no"
\* the closed flag tells the truth
FlagTruth == \A i \in DOMAIN hist : (hist[i][1] = "closed?" /\ hist[i][2][1] = "flag") =>
                hist[i][2][2] = (\E j \in 1..(i - 1) : hist[j][1] \in {"close", "exit"} \/ hist[j][2][1] = "stop")
=============================================================================
