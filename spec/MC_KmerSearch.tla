---------------------------- MODULE MC_KmerSearch ----------------------------
EXTENDS KmerSearch
CONSTANTS MaxLen, Shard, NShards

SeqsUpTo(S, n) == UNION { [1..m -> S] : m \in 0..n }
\* A C G T N
AlphaN == {65, 67, 71, 84, 78}
\* A T c g N : mixed case
AlphaMixed == {65, 84, 99, 103, 78, 97}

ShardOf(s) == (Len(s) + (IF Len(s) > 0 THEN s[1] + s[Len(s)] ELSE 0)) % NShards
MCSeqsN == { s \in SeqsUpTo(AlphaN, MaxLen) : ShardOf(s) = Shard }
MCSeqsMixed == { s \in SeqsUpTo(AlphaMixed, MaxLen) : ShardOf(s) = Shard }
MCKs == 1..3
\* A, AT (palindromic), AA (self-overlapping), CG (palindromic), ACA (self-overlapping at distance 2)
MCPres == { <<65>>, <<65, 84>>, <<65, 65>>, <<67, 71>>, <<65, 67, 65>> }
MCPresSmall == { <<65, 84>>, <<65, 65>>, <<71>> }
=============================================================================
