SPECIFICATION Spec
CONSTANTS
  MaxCalls = 3
  MaxFiles = 2
  Workers = {1, 2}
  FreshAccumulator = TRUE
INVARIANT OwnSignature
INVARIANT NoResidue
