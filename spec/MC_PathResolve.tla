--------------------------- MODULE MC_PathResolve ---------------------------
(* Constant-level checks of PathResolve over a fixed directory tree with one optional symbolic link:

       /a (dir)   /a/b (dir)   /a/x (file 4)   /x (file 5)   /c (dir)   /c/x (file 7)   /c/l (link 8 -> Target, or absent)

   and every path of up to MaxLen components over {a, b, c, x, l, "..", ".", ""}. *)
EXTENDS PathTree

CONSTANT MaxLen

Comps == {"a", "b", "c", "x", "l", "..", ".", ""}
RECURSIVE Paths(_)
Paths(n) == IF n = 0 THEN {<<>>} ELSE LET P == Paths(n - 1) IN P \cup { Append(p, c) : p \in { q \in P : Len(q) = n - 1 }, c \in Comps }

AllPaths == Paths(MaxLen)

ASSUME WellFormed == \A t \in Targets : WF(Tree(t))

\* without links a textual clean-up never changes which file a resolvable path names
ASSUME NormpathHarmlessWithoutLinks ==
  LET fs == Tree(<<"none">>) IN \A p \in AllPaths : Resolve(fs, p) # Fail => Resolve(fs, Normpath(p)) = Resolve(fs, p)

\* ... but the clean-up can make an unresolvable path resolvable (a/nothing/../x): it is not an equivalence even then
ASSUME NormpathNotAnEquivalence ==
  LET fs == Tree(<<"none">>) IN \E p \in AllPaths : Resolve(fs, p) = Fail /\ Resolve(fs, Normpath(p)) # Fail

\* with a link to a directory whose parent is not the link's parent, `link/..` names the TARGET's parent: the clean-up names another file
ASSUME NormpathWrongBehindLinks ==
  LET fs == Tree(<<"a", "b">>) IN
    /\ Resolve(fs, <<"c", "l", "..", "x">>) = 4
    /\ Resolve(fs, Normpath(<<"c", "l", "..", "x">>)) = 7
    /\ \E p \in AllPaths : Resolve(fs, p) # Fail /\ Resolve(fs, Normpath(p)) # Fail /\ Resolve(fs, Normpath(p)) # Resolve(fs, p)

\* "." and doubled separators never matter
Insert(p, i, c) == SubSeq(p, 1, i - 1) \o <<c>> \o SubSeq(p, i, Len(p))
ASSUME DotsAndEmptyComponentsAreNeutral ==
  \A t \in Targets : LET fs == Tree(t) IN
    \A p \in { q \in AllPaths : Len(q) < MaxLen } : \A i \in 1..Len(p) : \A c \in {".", ""} : Resolve(fs, Insert(p, i, c)) = Resolve(fs, p)

\* a link is transparent: going through it equals spelling out its target; a link cycle fails
ASSUME LinksAreTransparent ==
  \A t \in Targets \ {<<"none">>, <<"c", "l">>} : LET fs == Tree(t) IN
    \A p \in { q \in AllPaths : Len(q) + 2 <= MaxLen } : Resolve(fs, <<"c", "l">> \o p) = Resolve(fs, t \o p)
ASSUME LinkCycleFails == \A p \in { q \in AllPaths : Len(q) + 2 <= MaxLen } : Resolve(Tree(<<"c", "l">>), <<"c", "l">> \o p) = Fail

\* every node is named by its canonical path, and resolution never yields a link
RECURSIVE PathOf(_, _)
PathOf(fs, n) == IF n = Root THEN <<>> ELSE LET e == CHOOSE e \in fs.entries : e[3] = n IN Append(PathOf(fs, e[1]), e[2])
ASSUME CanonicalPaths ==
  \A t \in Targets : LET fs == Tree(t) IN
    /\ \A n \in 1..8 : fs.kind[n] # "link" => Resolve(fs, PathOf(fs, n)) = n
    /\ \A p \in AllPaths : Resolve(fs, p) # Fail => fs.kind[Resolve(fs, p)] # "link"

\* pathlib's textual dropping of "." and "" is harmless for every resolvable path (it only makes `file/.` openable)
ASSUME PathlibDropIsHarmless ==
  \A t \in Targets : LET fs == Tree(t) IN \A p \in AllPaths : Resolve(fs, p) # Fail => Resolve(fs, PathlibPath(p)) = Resolve(fs, p)

ASSUME PrintT(<<"paths", Cardinality(AllPaths), "file systems", Cardinality(Targets)>>)
=============================================================================
