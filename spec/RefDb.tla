-------------------------------- MODULE RefDb --------------------------------
(* C04.  The loading pipeline of ReferenceDatabase.__init__ as a state machine, checked against RefDbDef!LoadDef. *)
EXTENDS RefDbDef

\* ------------------------------------------------------------------ the code's pipeline
CONSTANTS MaxGenomes, MaxSigs, Ids
VARIABLES genomes, sigIds, idAttr,     \* scenario
          p,                           \* next signature position
          gout, iout,                  \* genomes_by_id_subset output so far
          pc, result
vars == <<genomes, sigIds, idAttr, p, gout, iout, pc, result>>

OptIds == {None} \cup { Some(i) : i \in Ids }
Inj(s) == \A x, y \in DOMAIN s : x # y => s[x] # s[y]
\* unique constraints of the schema: non-null values of an attribute are distinct across genomes; key is never null
ValidGenomes(gs) ==
  /\ \A a \in IdAttrs : \A x, y \in DOMAIN gs : (x # y /\ gs[x][a] # None) => gs[x][a] # gs[y][a]
  /\ \A x \in DOMAIN gs : gs[x]["key"] # None

Init ==
  /\ genomes \in UNION { { gs \in [1..n -> [IdAttrs -> OptIds]] : ValidGenomes(gs) } : n \in 1..MaxGenomes }
  /\ sigIds \in UNION { { s \in [1..m -> Ids] : Inj(s) } : m \in 0..MaxSigs }
  /\ idAttr \in {None, Some("key"), Some("refseq_acc"), Some("description")}
  /\ p = 1 /\ gout = <<>> /\ iout = <<>> /\ pc = "check" /\ result = "none"

\* _check_genome_id_attr / _check_genomes_have_ids
Check ==
  /\ pc = "check"
  /\ IF idAttr = None \/ The(idAttr) \notin IdAttrs THEN pc' = "done" /\ result' = "error"
     ELSE IF \E j \in DOMAIN genomes : genomes[j][The(idAttr)] = None THEN pc' = "done" /\ result' = "error"
     ELSE pc' = "scan" /\ UNCHANGED result
  /\ UNCHANGED <<genomes, sigIds, idAttr, p, gout, iout>>

\* one dictionary lookup per signature id, keeping the position of every hit
Scan ==
  /\ pc = "scan"
  /\ IF p > Len(sigIds) THEN pc' = "count" /\ UNCHANGED <<p, gout, iout>>
     ELSE LET hits == { j \in DOMAIN genomes : genomes[j][The(idAttr)] = Some(sigIds[p]) } IN
          /\ IF hits = {} THEN UNCHANGED <<gout, iout>>
             ELSE gout' = Append(gout, CHOOSE j \in hits : TRUE) /\ iout' = Append(iout, p - 1)
          /\ p' = p + 1 /\ UNCHANGED pc
  /\ UNCHANGED <<genomes, sigIds, idAttr, result>>

\* every genome of the set must have been matched
Count ==
  /\ pc = "count"
  /\ result' = IF Len(gout) = Len(genomes) THEN "loaded" ELSE "error"
  /\ pc' = "done"
  /\ UNCHANGED <<genomes, sigIds, idAttr, p, gout, iout>>

Next == Check \/ Scan \/ Count
Spec == Init /\ [][Next]_vars

Agrees ==
  pc = "done" =>
    LET d == LoadDef(genomes, sigIds, idAttr) IN
      /\ (result = "loaded") = d.ok
      /\ result = "loaded" => PairingCorrect(genomes, sigIds, idAttr, gout, iout)
=============================================================================
