SPECIFICATION Spec
CONSTANTS
  U = 5
INVARIANT Correct
INVARIANT LoopInv
