----------------------------- MODULE Judge_C10 -----------------------------
(* Judges records of consensus_taxon and classify(strict=True) (property C10). *)
EXTENDS Classify, Judge

ClCons(r) ==
  LET M == Range(r.input)  c == ConsDef(r.parent, M) IN
  << <<"no-error", r.ok>>,
     <<"consensus", r.ok => r.cons = c>>,
     <<"others-are-the-matched-taxa-strictly-below", (r.ok /\ c # 0) => Range(r.others) = Conflicting(r.parent, M, c)>> >>

\* one strict classification result x for scenario r with reference order perm (perm[k] = original genome at position k)
ClStrictOne(r, x) ==
  LET m == Matched(r.parent, r.thr, r.gt, r.d)
      M == Range(m) \ {0}
      c == ConsDef(r.parent, M)
      failed == M # {} /\ c = 0
      cands == PrimaryCandidates(r.parent, m, c)
  IN << <<"no-exception", x.ok>>,
        <<"prediction-is-consensus", x.ok => x.pred = c>>,
        <<"failed-iff-no-common-ancestor", x.ok => (x.success = ~failed) /\ (x.error = failed)>>,
        <<"prediction-comparable-with-every-match", (x.ok /\ x.pred > 0) =>
               \A t \in M : Leq(r.parent, x.pred, t) \/ Leq(r.parent, t, x.pred)>>,
        <<"warning-iff-match-strictly-below", (x.ok /\ c # 0) =>
               (x.warn_inconsistent = (Conflicting(r.parent, M, c) # {}))>>,
        <<"warning-names-conflicting-taxa", (x.ok /\ c # 0 /\ x.warn_inconsistent) =>
               Range(x.warned) = Conflicting(r.parent, M, c)>>,
        <<"primary-match-is-a-nearest-admissible-genome", x.ok =>
               IF c = 0 THEN x.primary_g = 0
               ELSE /\ x.primary_g \in cands
                    /\ \A g \in cands : r.d[x.primary_g] <= r.d[g]
                    /\ x.primary_d = r.d[x.primary_g]
                    /\ x.primary_mt = m[x.primary_g]>>,
        <<"closest-match", x.ok => x.closest_g \in ArgMins(r.d)>> >>

Same(x, y) == /\ x.pred = y.pred /\ x.success = y.success /\ x.error = y.error
              /\ x.warn_inconsistent = y.warn_inconsistent /\ Range(x.warned) = Range(y.warned)
              /\ x.primary_d = y.primary_d

ClStrict(r) ==
  << <<"each-order", \A i \in DOMAIN r.results : Failed(ClStrictOne(r, r.results[i])) = <<>> >>,
     <<"order-independent", \A i, j \in DOMAIN r.results : Same(r.results[i], r.results[j])>> >>

Clauses(r) == IF r.op = "cons" THEN ClCons(r) ELSE ClStrict(r)

\* for reporting which inner clause failed
Detail(r) == IF r.op = "cons" THEN <<>>
             ELSE LET bad == { i \in DOMAIN r.results : Failed(ClStrictOne(r, r.results[i])) # <<>> }
                  IN IF bad = {} THEN <<>> ELSE Failed(ClStrictOne(r, r.results[CHOOSE i \in bad : TRUE]))

VerdictD == LET all == [i \in 1..Len(Recs) |-> [i |-> i, why |-> Failed(Clauses(Recs[i])) \o Detail(Recs[i])]]
            IN [n |-> Len(Recs), bad |-> SelectSeq(all, LAMBDA x : x.why # <<>>)]
ASSUME PrintT(ToJson(VerdictD))
=============================================================================
