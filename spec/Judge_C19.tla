----------------------------- MODULE Judge_C19 -----------------------------
(* Judges the outcome of loading the file left behind by a writer killed before its N-th storage call (C19). *)
EXTENDS Judge

Clauses(r) ==
  << <<"writer-died-at-the-chosen-point", r.writer_rc = (IF r.crash_at < r.ncalls THEN 99 ELSE 0)>>,
     <<"partial-file-never-loads-as-a-different-collection", r.outcome # "loaded-different">>,
     <<"interrupted-write-is-refused", r.crash_at < r.ncalls => r.outcome \in {"error", "no-file", "loaded-rival-complete"}>>,      \* a rival writer's COMPLETE file is nobody's partial write
     <<"completed-write-loads-equal", r.crash_at >= r.ncalls => r.outcome = "loaded-equal">> >>

ASSUME PrintT(ToJson(Verdict(Recs, Clauses)))
=============================================================================
