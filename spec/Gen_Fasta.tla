------------------------------- MODULE Gen_Fasta -------------------------------
(* Generator: every rendering of the conformance genomes as file bytes, with the signature the specification requires
   (k = 5, prefix AT).  Written to IOEnv.OUT_FILE; gzip / file extension are cycled by the harness. *)
EXTENDS Fasta, Json, IOUtils, SequencesExt, FiniteSetsExt
CONSTANTS Quick
K == 5
Pre == <<65, 84>>
S(str) == str   \* contigs below are written as byte tuples
\* ATGACCATAT | ATGGTCAT.. : overlapping occurrences, occurrence flush with the end, reverse-strand hits, N inside a k-mer,
\* a contig ending in the prefix (k-mer would straddle the boundary), a contig too short for any k-mer
G1 == << <<65,84,71,65,67,67,65,84,65,84,71,71>>, <<71,65,67,67,65,65,84>>, <<84,71,71,84,67,65,84,67,67,78,65,84,65,67,71,84,65>> >>
G2 == << <<65,84,65,84,65,84,65,84,65,84,65,84>>, <<67,67,65,84>> >>
G3 == << <<71,71,84,67,65,84,65,84,71,65,67,67,65,84>> >>
Genomes == <<G1, G2, G3>>
Perms(n) == { p \in [1..n -> 1..n] : \A a, b \in 1..n : a # b => p[a] # p[b] }
Widths == IF Quick THEN {1, 4, 60} ELSE {1, 2, 3, 5, 7, 60}
Cases == IF Quick THEN {"upper", "mixed"} ELSE {"upper", "lower", "mixed"}
Renderings(n) == [perm : Perms(n), flip : [1..n -> BOOLEAN], case : Cases, width : Widths, crlf : BOOLEAN, finalnl : BOOLEAN]
Scen == UNION { { [genome |-> gi, rendering |-> [perm |-> r.perm, flip |-> [j \in 1..Len(r.flip) |-> r.flip[j]], case |-> r.case,
                                                 width |-> r.width, crlf |-> r.crlf, finalnl |-> r.finalnl],
                   bytes |-> Render(Genomes[gi], r),
                   sig |-> SortTuples(SigDefAll(Genomes[gi], K, Pre))] : r \in Renderings(Len(Genomes[gi])) } : gi \in 1..Len(Genomes) }
ASSUME ndJsonSerialize(IOEnv.OUT_FILE, SetToSeq(Scen))
=============================================================================
