----------------------------- MODULE Judge_C11 -----------------------------
(* Judges the three export formats of query results (property C11).
   Taxa are [some, key, name, rank (Option), ncbi (-1 = none), thr (float32 bits, -1 = none)]; text is code points. *)
EXTENDS Csv, Judge

Header == << <<113,117,101,114,121>>,                                                                 \* query
             <<112,114,101,100,105,99,116,101,100,46,110,97,109,101>>,                                \* predicted.name
             <<112,114,101,100,105,99,116,101,100,46,114,97,110,107>>,                                \* predicted.rank
             <<112,114,101,100,105,99,116,101,100,46,110,99,98,105,95,105,100>>,                      \* predicted.ncbi_id
             <<112,114,101,100,105,99,116,101,100,46,116,104,114,101,115,104,111,108,100>>,           \* predicted.threshold
             <<99,108,111,115,101,115,116,46,100,105,115,116,97,110,99,101>>,                         \* closest.distance
             <<99,108,111,115,101,115,116,46,100,101,115,99,114,105,112,116,105,111,110>>,            \* closest.description
             <<110,101,120,116,46,110,97,109,101>>, <<110,101,120,116,46,114,97,110,107>>,            \* next.name next.rank
             <<110,101,120,116,46,110,99,98,105,95,105,100>>,                                         \* next.ncbi_id
             <<110,101,120,116,46,116,104,114,101,115,104,111,108,100>> >>                            \* next.threshold

TName(t) == IF t.some THEN t.name ELSE <<>>
TRank(t) == IF t.some /\ t.rank # <<>> THEN t.rank[1] ELSE <<>>

ClCsv(r) ==
  LET rows == CsvParse("LF", r.text)
      ok == rows # <<"malformed">> /\ Len(rows) = Len(r.items) + 1 /\ \A i \in DOMAIN rows : Len(rows[i]) = 11
  IN
  << <<"parses-as-rfc4180", rows # <<"malformed">> >>,
     <<"standard-reader-agrees", rows = r.pyrows>>,
     <<"one-row-per-query-eleven-columns", ok>>,
     <<"documented-header", ok => rows[1] = Header>>,
     <<"text-columns", ok => \A i \in DOMAIN r.items :
          LET it == r.items[i]  row == rows[i + 1] IN
            /\ row[1] = it.label
            /\ row[2] = TName(it.report) /\ row[3] = TRank(it.report)
            /\ row[7] = it.closest.desc
            /\ row[8] = TName(it.next) /\ row[9] = TRank(it.next)>>,
     <<"numeric-columns", ok => \A i \in DOMAIN r.items :
          LET it == r.items[i]  nm == r.num[i]  row == rows[i + 1] IN
            /\ (row[4] = <<>>) = (~it.report.some \/ it.report.ncbi = -1) /\ nm.pred_ncbi = (IF it.report.some THEN it.report.ncbi ELSE -1)
            /\ (row[5] = <<>>) = (~it.report.some \/ it.report.thr = -1) /\ nm.pred_thr = (IF it.report.some THEN it.report.thr ELSE -1)
            /\ nm.dist = it.closest.dist
            /\ (row[10] = <<>>) = (~it.next.some \/ it.next.ncbi = -1) /\ nm.next_ncbi = (IF it.next.some THEN it.next.ncbi ELSE -1)
            /\ (row[11] = <<>>) = (~it.next.some \/ it.next.thr = -1) /\ nm.next_thr = (IF it.next.some THEN it.next.thr ELSE -1)>> >>

ClJson(r) ==
  << <<"valid-json", r.valid>>,
     <<"one-item-per-query", r.valid => Len(r.parsed) = Len(r.items)>>,
     <<"same-label-taxa-and-closest-genomes", (r.valid /\ Len(r.parsed) = Len(r.items)) =>
          \A i \in DOMAIN r.items : r.parsed[i] = r.items[i]>> >>

ClArchive(r) ==
  << <<"reads-back", r.ok>>,
     <<"reconstructed-results-equal-original", r.ok => r.equal>>,
     <<"every-field-identical", r.ok => r.a = r.b>> >>

Clauses(r) == CASE r.op = "csv" -> ClCsv(r) [] r.op = "json" -> ClJson(r) [] r.op = "archive" -> ClArchive(r)
ASSUME PrintT(ToJson(Verdict(Recs, Clauses)))
=============================================================================
