SPECIFICATION Spec
CONSTANTS
  SessionClass = "readonly"
  H5Mode = "r"
  MaxDepth = 8
  Record = TRUE
INVARIANT Emit
