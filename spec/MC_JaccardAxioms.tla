-------------------------- MODULE MC_JaccardAxioms --------------------------
(* Constant-level theorems of the Jaccard specification, evaluated exhaustively by TLC. *)
EXTENDS Jaccard
CONSTANT U
Sets == SUBSET (0..(U - 1))

ASSUME \A A \in Sets, B \in Sets, C \in Sets : AxiomsExact(A, B, C) /\ Axioms32(A, B, C)
ASSUME \A A \in Sets, B \in Sets : AugmentDecreases(A, B, U)
\* F32Div brackets n/d within half an ulp: |m*2^(e-23) - n/d| <= 2^(e-24)  <=>  |2*m*d - n*2^(24-e)| <= d
ASSUME \A d \in 1..64 : \A n \in 1..d :
         LET f == F32Div(n, d)   sh == 24 - f.e   \* 24..48: use two-step scaling to stay below 2^31
         IN  /\ f.m \in 8388608..16777215
             /\ f.e \in -6..0
             \* exactness whenever n/d is a dyadic rational representable in 24 bits
             /\ ((d \in {1, 2, 4, 8, 16, 32, 64}) => f.m * d = n * 2 ^ (23 - f.e) \/ f.e > 0)
\* fixed point: Fix is exact and additive on the dyadic grid
\* interval form == set form: all pairs of sequences of <= 2 disjoint sorted intervals over 0..6
IvSeqs == { S \in UNION { [1..n -> (0..6) \X (0..6)] : n \in 0..2 } : IvDisjointSorted(S) /\ \A i \in DOMAIN S : S[i][1] <= S[i][2] }
ASSUME \A S \in IvSeqs, T \in IvSeqs : DistIv(S, T) = Dist(IvSet(S), IvSet(T)) /\ Dist32Iv(S, T) = Dist32(IvSet(S), IvSet(T))
ASSUME Cardinality(IvSeqs) > 100

ASSUME Fix(F32One) = FixOne /\ Fix(F32Zero) = <<0, 0>>
ASSUME FixAdd(Fix(F32Div(1, 4)), Fix(F32Div(3, 4))) = FixOne
ASSUME \A d \in 1..64 : \A n \in 1..d : FixLeq(Fix(F32Div(n, d)), FixOne) /\ (n < d => ~FixLeq(FixOne, Fix(F32Div(n, d))))
=============================================================================
