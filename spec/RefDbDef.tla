------------------------------- MODULE RefDbDef -------------------------------
(***************************************************************************)
(* C04.  Loading a reference database: a genome set (each genome with its  *)
(* four identifier attributes, possibly null), a signature file (unique    *)
(* identifiers in any order, unrelated ones allowed, metadata naming the   *)
(* identifier attribute) and a directory listing.                          *)
(* Definition LoadDef (from the statement) and, separately, the code's     *)
(* pipeline (id -> genome map, one lookup per signature id, filter, count  *)
(* check) as a state machine; TLC checks pipeline == definition.           *)
(***************************************************************************)
EXTENDS Base

IdAttrs == {"key", "genbank_acc", "refseq_acc", "ncbi_id"}

\* ------------------------------------------------------------------ definition
GenomeFiles(listing) == { f \in listing : f.ext \in {".gdb", ".db"} /\ ~f.dir }
SigFiles(listing)    == { f \in listing : f.ext \in {".gs", ".h5"} /\ ~f.dir }
Locatable(listing) == Cardinality(GenomeFiles(listing)) = 1 /\ Cardinality(SigFiles(listing)) = 1

\* genomes : sequence of [attr -> Option(id)] ; sigIds : duplicate-free sequence of ids ; idAttr : Option(STRING)
IdOf(genomes, j, a) == genomes[j][a]

LoadDef(genomes, sigIds, idAttr) ==
  IF idAttr = None \/ The(idAttr) \notin IdAttrs THEN [ok |-> FALSE, why |-> "id_attr"]
  ELSE LET a == The(idAttr) IN
       IF \E j \in DOMAIN genomes : IdOf(genomes, j, a) = None THEN [ok |-> FALSE, why |-> "null-id"]
       ELSE IF \E j \in DOMAIN genomes : ~\E p \in DOMAIN sigIds : sigIds[p] = The(IdOf(genomes, j, a))
            THEN [ok |-> FALSE, why |-> "no-signature"]
            ELSE [ok |-> TRUE,
                  \* pairing: position (0-based) in the signature file of each genome's own signature
                  pair |-> [j \in DOMAIN genomes |-> (CHOOSE p \in DOMAIN sigIds : sigIds[p] = The(IdOf(genomes, j, a))) - 1]]

\* two genomes carrying the same identifier value (possible for ncbi_id, which is unique only together with ncbi_db): the statement
\* speaks of THE signature of a genome and is silent here; refusing to load and pairing both genomes with that signature are both
\* accepted - a database that silently lacks one of the genomes never is
Ambiguous(genomes, idAttr) ==
  idAttr # None /\ The(idAttr) \in IdAttrs /\
  \E i, j \in DOMAIN genomes : i # j /\ IdOf(genomes, i, The(idAttr)) # None /\ IdOf(genomes, i, The(idAttr)) = IdOf(genomes, j, The(idAttr))

\* a loaded database (genome order g, signature indices I) is correct iff it lists every genome exactly once
\* and pairs each with its own signature
PairingCorrect(genomes, sigIds, idAttr, g, I) ==
  LET d == LoadDef(genomes, sigIds, idAttr) IN
    /\ d.ok
    /\ Len(g) = Len(genomes) /\ Len(I) = Len(g)
    /\ { g[x] : x \in DOMAIN g } = DOMAIN genomes
    /\ \A x \in DOMAIN g : I[x] = d.pair[g[x]]
=============================================================================
