SPECIFICATION Spec
CONSTANTS
  Params = {"K1", "K2", "K3"}
  DEFAULT = "K1"
  MaxCmds = 2
  GuardQuerySigs = TRUE
INVARIANT NoSilentMismatch
INVARIANT Accounting
