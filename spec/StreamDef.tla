----------------------------- MODULE StreamDef -----------------------------
(***************************************************************************)
(* Lifecycle of a lazily parsed input stream: gambit.util.io.ClosingIterator *)
(* wrapping an iterator that reads from a stream, as returned by           *)
(* SequenceFile.parse() and consumed by calc_file_signature.               *)
(*                                                                         *)
(* A source is [n |-> number of records, fail |-> 0 or the 1-based position *)
(* whose read fails, after |-> "stops" / "unspecified": what the wrapped     *)
(* iterator does when read again after it failed].  The state is [open, pos, dead]: stream open?, number *)
(* of records yielded, iterator finished (exhausted or failed).             *)
(* Step(src, s, op) = <<next state, observation>> is the transition         *)
(* function; StreamLife.tla turns it into a state machine, Gen_Stream.tla   *)
(* enumerates operation sequences with the observations it requires.        *)
(***************************************************************************)
EXTENDS Base

Ops == {"next", "close", "exit", "closed?"}

\* open: "yes" / "no" / "unknown" (after reading on from an iterator that already failed, whose behaviour belongs to the wrapped
\* library iterator: a generator stops, Biopython's parser may fail again or resume - see src.after)
S0 == [open |-> "yes", pos |-> 0, dead |-> FALSE, failed |-> FALSE]

\* observations: <<"item", i>>, <<"stop">>, <<"error">>, <<"closed-error">>, <<"ok">>, <<"flag", b>>, <<"unspecified">>
Step(src, s, op) ==
  CASE op = "next" ->
         IF s.failed /\ src.after = "unspecified" THEN <<[s EXCEPT !.open = IF s.open = "no" THEN "no" ELSE "unknown"], <<"unspecified">>>>
         ELSE IF s.dead THEN <<[s EXCEPT !.open = "no"], <<"stop">>>>                 \* a finished iterator keeps stopping; close is repeated (idempotent)
         ELSE IF s.open = "no" /\ s.pos = src.n /\ src.fail = 0 /\ src.after = "unspecified"
              THEN <<[s EXCEPT !.dead = TRUE, !.failed = TRUE], <<"stop-or-closed-error">>>>   \* a parser that reads ahead may already know that nothing follows
         ELSE IF s.open = "no" THEN <<[s EXCEPT !.dead = TRUE, !.failed = TRUE], <<"closed-error">>>>     \* reading from a closed stream is an error, never data
         ELSE IF s.pos + 1 = src.fail THEN <<[s EXCEPT !.dead = TRUE, !.failed = TRUE], <<"error">>>>   \* the error surfaces; the stream is NOT closed by it
         ELSE IF s.pos = src.n THEN <<[s EXCEPT !.dead = TRUE, !.open = "no"], <<"stop">>>>  \* exhaustion closes the stream
         ELSE <<[s EXCEPT !.pos = s.pos + 1], <<"item", s.pos + 1>>>>
    [] op \in {"close", "exit"} -> <<[s EXCEPT !.open = "no"], <<"ok">>>>
    [] op = "closed?" -> <<s, IF s.open = "unknown" THEN <<"unspecified">> ELSE <<"flag", s.open = "no">>>>

\* an observed sequence matches the required one (an unspecified observation matches anything)
Matches(obs, exp) == Len(obs) = Len(exp) /\ \A i \in DOMAIN exp :
                        \/ exp[i] = <<"unspecified">> \/ obs[i] = exp[i]
                        \/ (exp[i] = <<"stop-or-closed-error">> /\ obs[i] \in {<<"stop">>, <<"closed-error">>})

\* run a sequence of operations: the sequence of observations
RECURSIVE Run(_, _, _)
Run(src, s, ops) ==
  IF ops = <<>> THEN <<>>
  ELSE LET r == Step(src, s, ops[1]) IN <<r[2]>> \o Run(src, r[1], Tail(ops))

RECURSIVE Final(_, _, _)
Final(src, s, ops) == IF ops = <<>> THEN s ELSE Final(src, Step(src, s, ops[1])[1], Tail(ops))
=============================================================================
