----------------------------- MODULE MC_SigStore -----------------------------
EXTENDS SigStore
CONSTANT MaxSigs
Init ==
  /\ call \in { ArrayPath(n) : n \in 1..MaxSigs } \cup { ItemsPath(n) : n \in 1..MaxSigs }
  /\ pc = 0 /\ mem = EmptyMem /\ disk = EmptyDisk
Spec == Init /\ [][Next]_vars
=============================================================================
