----------------------------- MODULE ClassifyAlgo -----------------------------
(***************************************************************************)
(* The lineage walks of gambit.classify as state machines, one action per  *)
(* loop iteration, checked against the definitions in Classify:            *)
(*   matching_taxon(taxon, d)      : walk ancestors(incself) until a       *)
(*                                   threshold covers d                    *)
(*   GenomeMatch.next_taxon()      : lo/hi walk over threshold-bearing     *)
(*                                   ancestors                             *)
(*   reportable_taxon(taxon)       : walk ancestors until report is set    *)
(* StartAtThreshold = TRUE  : next_taxon as repaired (hi starts at the     *)
(*                            first threshold-bearing taxon at or above    *)
(*                            the genome's taxon)                          *)
(* StartAtThreshold = FALSE : as found at the pinned commit (negative      *)
(*                            control: returns a threshold-less taxon)     *)
(***************************************************************************)
EXTENDS Classify

CONSTANTS N, MaxRank, StartAtThreshold

VARIABLES parent, thr, report, t, d,    \* scenario
          mt, mtpc,                     \* matching_taxon walk: cursor, state
          lo, hi, nxpc,                 \* next_taxon walk
          rt, rtpc                      \* reportable walk (started from the matched taxon once known)
vars == <<parent, thr, report, t, d, mt, mtpc, lo, hi, nxpc, rt, rtpc>>

\* next ancestor of x (strictly above) carrying a threshold, 0 if none
NextThresholded(x) ==
  FirstWhere(Anc(parent, parent[x]), LAMBDA a : thr[a] # NoThr)
FirstThresholdedAtOrAbove(x) ==
  FirstWhere(Anc(parent, x), LAMBDA a : thr[a] # NoThr)

Init ==
  /\ parent \in Forests(N)
  /\ thr \in [1..N -> {NoThr} \cup 0..MaxRank]
  /\ report \in [1..N -> BOOLEAN]
  /\ t \in 1..N
  /\ d \in 0..(MaxRank + 1)
  /\ mt = t /\ mtpc = "walk"
  /\ lo = 0 /\ hi = (IF StartAtThreshold THEN FirstThresholdedAtOrAbove(t) ELSE t) /\ nxpc = "walk"
  /\ rt = 0 /\ rtpc = "wait"

MatchStep ==
  /\ mtpc = "walk"
  /\ IF mt = 0 THEN mtpc' = "done" /\ UNCHANGED mt
     ELSE IF thr[mt] # NoThr /\ d <= thr[mt] THEN mtpc' = "done" /\ UNCHANGED mt
     ELSE mt' = parent[mt] /\ UNCHANGED mtpc
  /\ UNCHANGED <<parent, thr, report, t, d, lo, hi, nxpc, rt, rtpc>>

NextStep ==
  /\ nxpc = "walk"
  /\ IF hi = 0 THEN nxpc' = "done" /\ UNCHANGED <<lo, hi>>                         \* return lo
     ELSE IF thr[hi] # NoThr /\ d <= thr[hi] THEN nxpc' = "done" /\ UNCHANGED <<lo, hi>>   \* return lo
     ELSE lo' = hi /\ hi' = NextThresholded(hi) /\ UNCHANGED nxpc
  /\ UNCHANGED <<parent, thr, report, t, d, mt, mtpc, rt, rtpc>>

ReportStart ==
  /\ rtpc = "wait" /\ mtpc = "done"
  /\ rt' = mt /\ rtpc' = "walk"
  /\ UNCHANGED <<parent, thr, report, t, d, mt, mtpc, lo, hi, nxpc>>

ReportStep ==
  /\ rtpc = "walk"
  /\ IF rt = 0 THEN rtpc' = "done" /\ UNCHANGED rt
     ELSE IF report[rt] THEN rtpc' = "done" /\ UNCHANGED rt
     ELSE rt' = parent[rt] /\ UNCHANGED rtpc
  /\ UNCHANGED <<parent, thr, report, t, d, mt, mtpc, lo, hi, nxpc>>

Next == MatchStep \/ NextStep \/ ReportStart \/ ReportStep
Spec == Init /\ [][Next]_vars

MatchCorrect  == mtpc = "done" => mt = MatchingTaxon(parent, thr, t, d)
NextCorrect   == nxpc = "done" => lo = NextTaxon(parent, thr, t, d)
ReportCorrect == rtpc = "done" => rt = Reportable(parent, report, MatchingTaxon(parent, thr, t, d))

\* properties of the definitions themselves (C03): next is threshold-bearing, strictly below the prediction, and
\* increasing the distance only keeps or coarsens the prediction
NextShape ==
  LET nx == NextTaxon(parent, thr, t, d)  pr == MatchingTaxon(parent, thr, t, d) IN
    /\ (nx # 0 => (thr[nx] # NoThr /\ Leq(parent, nx, t)))
    /\ (nx # 0 /\ pr # 0) => StrictAnc(parent, pr, nx)
    /\ pr = t => nx = 0
Monotone ==
  \A d2 \in d..(MaxRank + 1) :
    LET p1 == MatchingTaxon(parent, thr, t, d)  p2 == MatchingTaxon(parent, thr, t, d2)
    IN p2 = 0 \/ (p1 # 0 /\ Leq(parent, p2, p1))
=============================================================================
