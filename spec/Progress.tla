------------------------------- MODULE Progress -------------------------------
(***************************************************************************)
(* Growth beyond the listed properties: the progress-meter protocol every  *)
(* long-running library call follows (calc_file_signatures,                *)
(* jaccarddist_matrix / _pairwise, query, iter_progress).                  *)
(*   Create(total) ; Increment(d) / MoveTo(n) ; Close                      *)
(* The position never exceeds the total and never decreases, nothing       *)
(* happens after Close, and a call that returns normally leaves the meter  *)
(* at its total and closed.                                                *)
(***************************************************************************)
EXTENDS Base

CONSTANTS MaxTotal
VARIABLES total, n, closed, outcome
vars == <<total, n, closed, outcome>>

Init == total \in 0..MaxTotal /\ n = 0 /\ closed = FALSE /\ outcome = "running"
Increment(d) == /\ ~closed /\ outcome = "running" /\ d >= 0 /\ n + d <= total
                /\ n' = n + d /\ UNCHANGED <<total, closed, outcome>>
MoveTo(m) == /\ ~closed /\ outcome = "running" /\ m >= n /\ m <= total
             /\ n' = m /\ UNCHANGED <<total, closed, outcome>>
Close == /\ ~closed /\ closed' = TRUE /\ UNCHANGED <<total, n, outcome>>
Return == /\ outcome = "running" /\ n = total /\ closed /\ outcome' = "returned" /\ UNCHANGED <<total, n, closed>>
Raise == /\ outcome = "running" /\ closed /\ outcome' = "raised" /\ UNCHANGED <<total, n, closed>>
Next == (\E d \in 0..MaxTotal : Increment(d)) \/ (\E m \in 0..MaxTotal : MoveTo(m)) \/ Close \/ Return \/ Raise
Spec == Init /\ [][Next]_vars

Bounded == n \in 0..total
Complete == outcome = "returned" => n = total /\ closed

=============================================================================
