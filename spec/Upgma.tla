-------------------------------- MODULE Upgma --------------------------------
(* C17.  UPGMA as a state machine over all small metric matrices (definitions in UpgmaDef). *)
EXTENDS UpgmaDef

\* ------------------------------------------------------------------ state machine (model checking)
CONSTANTS NLeaves, MaxD, HeightDenC
VARIABLES D, clusters, height, merges
vars == <<D, clusters, height, merges>>
Leaves == 1..NLeaves

PairsLt == { p \in Leaves \X Leaves : p[1] < p[2] }
SymMatrices == { [i \in Leaves |-> [j \in Leaves |-> IF i = j THEN 0 ELSE IF i < j THEN u[<<i, j>>] ELSE u[<<j, i>>]]] :
                   u \in [PairsLt -> 0..MaxD] }
\* only metrics are clustered (Jaccard distances satisfy the triangle inequality)
IsMetric(M) == \A i, j, k \in Leaves : M[i][k] <= M[i][j] + M[j][k]

Init == /\ D \in { M \in SymMatrices : IsMetric(M) }
        /\ clusters = { {i} : i \in Leaves }
        /\ height = [c \in { {i} : i \in Leaves } |-> 0]
        /\ merges = <<>>

Merge(A, B) ==
  /\ CanMerge(D, clusters, A, B)
  /\ clusters' = (clusters \ {A, B}) \cup {A \cup B}
  /\ height' = [c \in (clusters \ {A, B}) \cup {A \cup B} |->
                  IF c = A \cup B THEN HeightOf(D, A, B, HeightDenC) ELSE height[c]]
  /\ merges' = Append(merges, [a |-> A, b |-> B, h |-> HeightOf(D, A, B, HeightDenC)])
  /\ UNCHANGED D

MergeAny == \E A \in clusters, B \in clusters : Merge(A, B)
Next == MergeAny
Spec == Init /\ [][Next]_vars

\* no inversions: a merged cluster is at least as high as both of its parts
Monotone == \A m \in DOMAIN merges : \A k \in 1..(m - 1) : merges[k].h <= merges[m].h
\* clusters always partition the leaves; the dendrogram is binary and ends with one root
Partition == UNION clusters = Leaves /\ \A X \in clusters, Y \in clusters : X # Y => X \cap Y = {}
Finished == Cardinality(clusters) = 1 => Len(merges) = NLeaves - 1
\* the cophenetic height of two leaves (height of the first merge joining them) is at least... and ultrametric:
Coph(i, j) == LET ms == { m \in DOMAIN merges : i \in merges[m].a \cup merges[m].b /\ j \in merges[m].a \cup merges[m].b }
              IN IF ms = {} THEN -1 ELSE merges[CHOOSE m \in ms : \A k \in ms : m <= k].h
Ultrametric ==
  Cardinality(clusters) = 1 =>
    \A i, j, k \in Leaves : (i # j /\ j # k /\ i # k) =>
       Coph(i, k) <= Max2(Coph(i, j), Coph(j, k))
=============================================================================
