----------------------------- MODULE Judge_C09 -----------------------------
(* Judges the closest-genomes list of query results (property C09): r.list[i] = [g, d, mt]. *)
EXTENDS World, Judge

ClItem(r) ==
  LET exp == ClosestList(r.d, r.N, {}) IN
  << <<"no-error", r.ok>>,
     <<"length-is-min-N-nrefs", r.ok => Len(r.list) = Min2(r.N, Len(r.d))>>,
     <<"ordered-by-distance-then-reference-order", r.ok => [i \in DOMAIN r.list |-> r.list[i].g] = exp>>,
     <<"exact-distances", r.ok => \A i \in DOMAIN r.list : r.list[i].g \in DOMAIN r.d => r.list[i].d = r.d[r.list[i].g]>>,
     <<"taxon-assigned-by-distance-alone", r.ok => \A i \in DOMAIN r.list : r.list[i].g \in DOMAIN r.d =>
            r.list[i].mt = MatchingTaxon(r.parent, r.thr, r.gt[r.list[i].g], r.d[r.list[i].g])>>,
     <<"first-entry-is-the-closest-match", (r.ok /\ Len(r.list) > 0) => r.list[1].g = r.closest_g>> >>

\* the list of a query run against a real database (any layout of the signature file, any chunk size): the distance vector is
\* recomputed by TLC from the nucleotide sequences of the query and of every reference genome, in reference (genome) order
RunClauses(db, d, run) ==
  ClItem([ok |-> run.ok, d |-> d, N |-> run.N, list |-> run.list, closest_g |-> run.closest_g,
          parent |-> db.parent, thr |-> db.thr, gt |-> db.gt])

ClDb(r) ==
  LET d == RowDists(r.db, r.probe)
      per == [x \in DOMAIN r.runs |-> Failed(RunClauses(r.db, d, r.runs[x]))]
      names == <<"no-error", "length-is-min-N-nrefs", "ordered-by-distance-then-reference-order", "exact-distances",
                 "taxon-assigned-by-distance-alone", "first-entry-is-the-closest-match">>
  IN [c \in DOMAIN names |-> <<names[c], \A x \in DOMAIN r.runs : \A j \in DOMAIN per[x] : per[x][j] # names[c]>>]
     \o << <<"json-export-lists-the-same-genomes-in-the-same-order", \A x \in DOMAIN r.runs :
                r.runs[x].ok => r.runs[x].json = [i \in DOMAIN r.runs[x].list |-> r.runs[x].list[i].g]>>,
            <<"csv-and-json-name-the-same-closest-genome", \A x \in DOMAIN r.runs :
                (r.runs[x].ok /\ r.runs[x].json # <<>>) => r.runs[x].csv_g = r.runs[x].json[1] /\ r.runs[x].csv_g = r.runs[x].closest_g>> >>

Clauses(r) == IF r.op = "db" THEN ClDb(r) ELSE ClItem(r)

ASSUME PrintT(ToJson(Verdict(Recs, Clauses)))
=============================================================================
