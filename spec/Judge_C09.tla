----------------------------- MODULE Judge_C09 -----------------------------
(* Judges the closest-genomes list of query results (property C09): r.list[i] = [g, d, mt]. *)
EXTENDS Classify, Judge

Clauses(r) ==
  LET exp == ClosestList(r.d, r.N, {}) IN
  << <<"no-error", r.ok>>,
     <<"length-is-min-N-nrefs", r.ok => Len(r.list) = Min2(r.N, Len(r.d))>>,
     <<"ordered-by-distance-then-reference-order", r.ok => [i \in DOMAIN r.list |-> r.list[i].g] = exp>>,
     <<"exact-distances", r.ok => \A i \in DOMAIN r.list : r.list[i].g \in DOMAIN r.d => r.list[i].d = r.d[r.list[i].g]>>,
     <<"taxon-assigned-by-distance-alone", r.ok => \A i \in DOMAIN r.list : r.list[i].g \in DOMAIN r.d =>
            r.list[i].mt = MatchingTaxon(r.parent, r.thr, r.gt[r.list[i].g], r.d[r.list[i].g])>>,
     <<"first-entry-is-the-closest-match", (r.ok /\ Len(r.list) > 0) => r.list[1].g = r.closest_g>> >>

ASSUME PrintT(ToJson(Verdict(Recs, Clauses)))
=============================================================================
