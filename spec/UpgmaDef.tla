------------------------------- MODULE UpgmaDef -------------------------------
(***************************************************************************)
(* C17.  Average-linkage (UPGMA) clustering as a NONDETERMINISTIC merge    *)
(* relation: any pair of clusters at minimum average distance may merge    *)
(* (ties may be broken either way).  D is a symmetric matrix of integers   *)
(* (distances scaled to a common denominator), so all comparisons are      *)
(* exact cross-multiplications.  The height of a merged cluster is the     *)
(* average distance between its two parts, expressed in units of           *)
(* 1/HeightDen of the distance unit (HeightDen = lcm of the possible       *)
(* |A|*|B|), which keeps heights integral.                                 *)
(***************************************************************************)
EXTENDS Base

RECURSIVE SumPairs(_, _)
SumPairs(D, P) == IF P = {} THEN 0 ELSE LET p == CHOOSE q \in P : TRUE IN D[p[1]][p[2]] + SumPairs(D, P \ {p})

\* sum of pairwise distances between two disjoint clusters
CrossSum(D, A, B) == SumPairs(D, A \X B)

\* avg(A,B) <= avg(X,Y), by cross-multiplication
AvgLeq(D, A, B, X, Y) ==
  CrossSum(D, A, B) * Cardinality(X) * Cardinality(Y) <= CrossSum(D, X, Y) * Cardinality(A) * Cardinality(B)

\* (A, B) attains the minimum average distance among all pairs of current clusters
CanMerge(D, clusters, A, B) ==
  /\ A \in clusters /\ B \in clusters /\ A # B
  /\ \A X \in clusters, Y \in clusters : X # Y => AvgLeq(D, A, B, X, Y)

\* height of the merge in units of 1/HeightDen
HeightOf(D, A, B, HeightDen) == (CrossSum(D, A, B) * HeightDen) \div (Cardinality(A) * Cardinality(B))
=============================================================================
