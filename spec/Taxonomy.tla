------------------------------ MODULE Taxonomy ------------------------------
(***************************************************************************)
(* Taxonomy forests.  Taxa are 1..n; parent[t] \in 0..n (0 = root).        *)
(* thr[t] = -1 (no threshold) or a distance rank >= 0; report[t] BOOLEAN.  *)
(* Distances and thresholds are abstracted to ranks: classification only   *)
(* compares them (<=, <, min).                                             *)
(***************************************************************************)
EXTENDS Base

NoThr == -1

\* lineage of t, bottom to top, including t   (parent must be acyclic)
RECURSIVE Anc(_, _)
Anc(parent, t) == IF t = 0 THEN <<>> ELSE <<t>> \o Anc(parent, parent[t])

AncSet(parent, t) == Range(Anc(parent, t))
\* a is t or an ancestor of t
Leq(parent, a, t) == a \in AncSet(parent, t)
StrictAnc(parent, a, t) == a # t /\ Leq(parent, a, t)
Depth(parent, t) == Len(Anc(parent, t))

\* lowest common ancestor of a non-empty set of taxa; 0 if they share none
LCA(parent, S) ==
  LET common == { a \in DOMAIN parent : \A t \in S : Leq(parent, a, t) }
  IN IF common = {} THEN 0
     ELSE CHOOSE a \in common : \A b \in common : Depth(parent, b) <= Depth(parent, a)

\* all forests on n taxa whose parents carry smaller numbers (every forest shape has such a numbering)
Forests(n) == { p \in [1..n -> 0..n] : \A t \in 1..n : p[t] < t }

\* first element of a sequence satisfying P, as Option
FirstWhere(s, P(_)) ==
  LET idx == { i \in DOMAIN s : P(s[i]) }
  IN IF idx = {} THEN 0 ELSE s[CHOOSE i \in idx : \A j \in idx : i <= j]
=============================================================================
